package main

import (
	"encoding/json"
	"flag"
	"fmt"
	"os"
	"runtime/pprof"
	"strings"
	"time"

	"govc/vc"
)

func main() {
	if pf := os.Getenv("GOVC_PROF"); pf != "" {
		f, _ := os.Create(pf)
		pprof.StartCPUProfile(f)
		go func() {
			time.Sleep(40 * time.Second)
			pprof.StopCPUProfile()
			f.Close()
			os.Exit(3)
		}()
	}
	if len(os.Args) < 2 {
		fmt.Fprintln(os.Stderr, "usage: govc fn <key>... | check <id> <tier>")
		os.Exit(2)
	}
	switch os.Args[1] {
	case "fn":
		cmdFn(os.Args[2:])
	case "check":
		cmdCheck(os.Args[2:])
	case "locals":
		cmdLocals(os.Args[2:])
	case "pins":
		cmdPins(os.Args[2:])
	case "sweep":
		cmdSweep(os.Args[2:])
	default:
		fmt.Fprintln(os.Stderr, "unknown command")
		os.Exit(2)
	}
}

func cmdFn(args []string) {
	fs := flag.NewFlagSet("fn", flag.ExitOnError)
	repo := fs.String("repo", "/repo", "")
	spec := fs.String("spec", "/verif/spec", "")
	work := fs.String("work", "/verif/work/dev", "")
	timeout := fs.Int("timeout", 10, "")
	verbose := fs.Bool("v", false, "")
	fs.Parse(args)
	s, err := vc.NewSession(*repo, *spec, *work)
	if err != nil {
		fmt.Fprintln(os.Stderr, "error:", err)
		os.Exit(2)
	}
	s.TimeoutS = *timeout
	if os.Getenv("GOVC_SPLITS") != "" {
		vc.DebugSplits = map[string]int{}
	}
	if mp := os.Getenv("GOVC_MAXPATHS"); mp != "" {
		fmt.Sscanf(mp, "%d", &s.Ex.MaxPaths)
	}
	var results []*vc.FuncResult
	for _, k := range fs.Args() {
		if !strings.HasPrefix(k, vc.ModulePath) {
			k = vc.ModulePath + "/" + k
		}
		results = append(results, s.Generate(k)...)
	}
	if vc.DebugSplits != nil {
		for k, v := range vc.DebugSplits {
			fmt.Printf("SPLIT %6d %s\n", v, k)
		}
		return
	}
	results = append(results, s.LemmaResults())
	s.DischargeAll(results, "fn")
	for _, r := range results {
		fmt.Printf("== %s  paths=%d returns=%d obligations=%d\n", r.Key, r.Paths, r.Returns, len(r.Obligations))
		if r.Error != "" {
			fmt.Println("   ERROR:", r.Error)
		}
		for _, u := range r.Unsupported {
			fmt.Println("   UNSUPPORTED:", u)
		}
		if len(r.Inlined) > 0 {
			fmt.Println("   inlined:", r.Inlined)
		}
		if len(r.Unmodelled) > 0 {
			fmt.Println("   unmodelled:", r.Unmodelled)
		}
	}
	for _, sm := range vc.Summarize(results) {
		mark := "ok  "
		if sm.Status != "unsat" {
			mark = "FAIL"
		}
		if *verbose || sm.Status != "unsat" {
			fmt.Printf("%s %-70s x%d %s %.2fs %v\n", mark, sm.Name, sm.Instances, sm.Status, sm.Time, sm.Solvers)
			for _, f := range sm.Failed {
				fmt.Printf("       %s %s %s\n", f.Status, f.File, f.Detail)
			}
		}
	}
}

func cmdCheck(args []string) {
	fs := flag.NewFlagSet("check", flag.ExitOnError)
	repo := fs.String("repo", "/repo", "")
	verif := fs.String("verif", "/verif", "")
	timeout := fs.Int("timeout", 0, "")
	fs.Parse(args)
	if fs.NArg() < 1 {
		fmt.Fprintln(os.Stderr, "usage: govc check [-repo dir] <id> [quick|thorough]")
		os.Exit(2)
	}
	id := fs.Arg(0)
	tier := "quick"
	if fs.NArg() > 1 {
		tier = fs.Arg(1)
	}
	if t := os.Getenv("VERIF_TIER"); t != "" && fs.NArg() < 2 {
		tier = t
	}
	seed := 1
	if sd := os.Getenv("VERIF_SEED"); sd != "" {
		fmt.Sscanf(sd, "%d", &seed)
	}
	specs, err := vc.LoadPropSpecs(*verif + "/spec/properties.json")
	if err != nil {
		fmt.Fprintln(os.Stderr, "error:", err)
		os.Exit(2)
	}
	ps, ok := specs[id]
	if !ok {
		fmt.Fprintln(os.Stderr, "unknown property", id)
		os.Exit(2)
	}
	s, err := vc.NewSession(*repo, *verif+"/spec", *verif+"/work/"+id)
	if err != nil {
		// the tree does not load (does not compile): nothing can be decided
		fmt.Fprintln(os.Stderr, "error:", err)
		os.Exit(2)
	}
	s.TimeoutS = 20
	if tier == "thorough" {
		s.TimeoutS = 60
		vc.CrossCheck = true
	}
	if *timeout > 0 {
		s.TimeoutS = *timeout
	}
	os.Exit(s.RunCheck(ps, vc.CheckOpts{VerifDir: *verif, Tier: tier, Seed: seed}))
}

// cmdPins prints the normalised specification text of every contract (and macro) of the
// given packages as a JSON map usable as a pinned_file of a property spec.
func cmdPins(args []string) {
	contracts, _, err := vc.LoadContracts("/repo")
	if err != nil {
		fmt.Fprintln(os.Stderr, "error:", err)
		os.Exit(2)
	}
	out := map[string]string{}
	want := func(pkg string) bool {
		for _, a := range args {
			if strings.HasSuffix(pkg, "/"+a) {
				return true
			}
		}
		return len(args) == 0
	}
	for k, ct := range contracts {
		if want(ct.Pkg) {
			out[strings.TrimPrefix(k, vc.ModulePath+"/")+"#contract"] = ct.SpecText()
		}
	}
	for pkg, ms := range vc.MacroRaw {
		if want(pkg) {
			for n, t := range ms {
				out[strings.TrimPrefix(pkg, vc.ModulePath+"/")+"#macro:"+n] = t
			}
		}
	}
	data, _ := json.MarshalIndent(out, "", " ")
	fmt.Println(string(data))
}

// cmdSweep: development aid - run the generator on every module function (contract or not)
// and print a one-line status per function.
func cmdSweep(args []string) {
	fs := flag.NewFlagSet("sweep", flag.ExitOnError)
	timeout := fs.Int("timeout", 5, "")
	match := fs.String("match", "", "substring filter on the function key")
	fs.Parse(args)
	s, err := vc.NewSession("/repo", "/verif/spec", fmt.Sprintf("/verif/work/sweep%d", os.Getpid()))
	if err != nil {
		fmt.Fprintln(os.Stderr, "error:", err)
		os.Exit(2)
	}
	s.TimeoutS = *timeout
	s.Ex.GenBudgetS = 60
	defer os.RemoveAll(s.WorkDir)
	keys := s.Ex.SweepKeys()
	for _, k := range keys {
		if *match != "" && !strings.Contains(k, *match) {
			continue
		}
		t0 := time.Now()
		results := s.Generate(k)
		s.DischargeAll(results, "sweep")
		for _, r := range results {
			bad := 0
			var names []string
			for _, sm := range vc.Summarize([]*vc.FuncResult{r}) {
				if sm.Status != "unsat" {
					bad++
					names = append(names, strings.TrimPrefix(sm.Name, r.Key)+":"+sm.Status)
				}
			}
			st := "ok"
			if r.Error != "" {
				st = "ERROR " + r.Error
			} else if len(r.Unsupported) > 0 {
				st = "UNSUPPORTED " + strings.Join(r.Unsupported, "; ")
			} else if bad > 0 {
				st = fmt.Sprintf("FAIL %d %v", bad, names)
			}
			if len(st) > 300 {
				st = st[:300]
			}
			fmt.Printf("%-70s paths=%-3d obl=%-4d %.1fs %s\n", strings.TrimPrefix(r.Key, vc.ModulePath+"/"), r.Paths, len(r.Obligations), time.Since(t0).Seconds(), st)
		}
	}
}

// cmdLocals prints, for every function under contract in /repo, its captured variables and source locals by
// position (spec/locals_baseline.json: lets a contract survive the renaming of a variable it mentions).
func cmdLocals(args []string) {
	s, err := vc.NewSession("/repo", "/verif/spec", "/verif/work/dev")
	if err != nil {
		fmt.Fprintln(os.Stderr, "error:", err)
		os.Exit(2)
	}
	out := map[string][]vc.LocalInfo{}
	for key := range s.Ex.Contracts {
		if fn, ok := s.Ex.FuncByKey[key]; ok {
			if o := fn.Origin(); o != nil {
				fn = o
			}
			if l := s.Ex.LocalsOf(fn); len(l) > 0 {
				out[key] = l
			}
		}
	}
	if len(args) > 0 && args[0] == "functions" {
		fns := map[string]string{}
		for key, fn := range s.Ex.FuncByKey {
			if o := fn.Origin(); o != nil {
				fn = o
			}
			fns[key] = vc.SigString(fn)
		}
		data, _ := json.MarshalIndent(fns, "", " ")
		fmt.Println(string(data))
		return
	}
	data, _ := json.MarshalIndent(out, "", " ")
	fmt.Println(string(data))
}
