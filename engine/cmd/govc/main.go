package main

import (
	"flag"
	"fmt"
	"os"
	"strings"

	"govc/vc"
)

func main() {
	if len(os.Args) < 2 {
		fmt.Fprintln(os.Stderr, "usage: govc fn <key>... | check <id> <tier>")
		os.Exit(2)
	}
	switch os.Args[1] {
	case "fn":
		cmdFn(os.Args[2:])
	default:
		fmt.Fprintln(os.Stderr, "unknown command")
		os.Exit(2)
	}
}

func cmdFn(args []string) {
	fs := flag.NewFlagSet("fn", flag.ExitOnError)
	repo := fs.String("repo", "/repo", "")
	spec := fs.String("spec", "/verif/spec", "")
	work := fs.String("work", "/verif/work/dev", "")
	timeout := fs.Int("timeout", 10, "")
	verbose := fs.Bool("v", false, "")
	fs.Parse(args)
	s, err := vc.NewSession(*repo, *spec, *work)
	if err != nil {
		fmt.Fprintln(os.Stderr, "error:", err)
		os.Exit(2)
	}
	s.TimeoutS = *timeout
	var results []*vc.FuncResult
	for _, k := range fs.Args() {
		if !strings.HasPrefix(k, vc.ModulePath) {
			k = vc.ModulePath + "/" + k
		}
		results = append(results, s.Generate(k)...)
	}
	s.DischargeAll(results, "fn")
	for _, r := range results {
		fmt.Printf("== %s  paths=%d returns=%d obligations=%d\n", r.Key, r.Paths, r.Returns, len(r.Obligations))
		if r.Error != "" {
			fmt.Println("   ERROR:", r.Error)
		}
		for _, u := range r.Unsupported {
			fmt.Println("   UNSUPPORTED:", u)
		}
		if len(r.Inlined) > 0 {
			fmt.Println("   inlined:", r.Inlined)
		}
		if len(r.Unmodelled) > 0 {
			fmt.Println("   unmodelled:", r.Unmodelled)
		}
	}
	for _, sm := range vc.Summarize(results) {
		mark := "ok  "
		if sm.Status != "unsat" {
			mark = "FAIL"
		}
		if *verbose || sm.Status != "unsat" {
			fmt.Printf("%s %-70s x%d %s %.2fs %v\n", mark, sm.Name, sm.Instances, sm.Status, sm.Time, sm.Solvers)
			for _, f := range sm.Failed {
				fmt.Printf("       %s %s %s\n", f.Status, f.File, f.Detail)
			}
		}
	}
}
