// timeconf: bounded conformance test of the two assumptions the verification makes about time.Date
// (spec/time.spec) against the real standard library and the installed tzdata:
//
//	A1  time.Date(y,m,d,h,mi,s,0,loc) is the instant  C - off(loc, C - off(loc, C))   (C = civil seconds)
//	A2  if some instant u of loc has civil time C (u + off(loc,u) == C) the result has exactly these fields
//
// It samples every zone of the tzdata around its offset transitions. It is a test of an assumption,
// labelled bounded in the evidence; it does not turn the assumption into a proof.
package main

import (
	"archive/zip"
	"fmt"
	"os"
	"path/filepath"
	"runtime"
	"sort"
	"strings"
	"time"
)

func zones() []string {
	var out []string
	for _, root := range []string{"/usr/share/zoneinfo", "/usr/lib/zoneinfo", "/usr/share/lib/zoneinfo"} {
		filepath.Walk(root, func(p string, info os.FileInfo, err error) error {
			if err != nil || info.IsDir() {
				return nil
			}
			rel := strings.TrimPrefix(p, root+"/")
			if strings.HasPrefix(rel, "posix/") || strings.HasPrefix(rel, "right/") || strings.Contains(rel, ".") || rel == "localtime" || rel == "posixrules" || rel == "leapseconds" {
				return nil
			}
			if _, err := time.LoadLocation(rel); err == nil {
				out = append(out, rel)
			}
			return nil
		})
		if len(out) > 0 {
			break
		}
	}
	if len(out) == 0 { // fall back to the zip shipped with the Go distribution
		if r, err := zip.OpenReader(filepath.Join(runtime.GOROOT(), "lib", "time", "zoneinfo.zip")); err == nil {
			for _, f := range r.File {
				if !strings.HasSuffix(f.Name, "/") {
					if _, err := time.LoadLocation(f.Name); err == nil {
						out = append(out, f.Name)
					}
				}
			}
			r.Close()
		}
	}
	sort.Strings(out)
	return out
}

const epoch = 62135596800 // seconds from 0001-01-01 to 1970-01-01

func off(loc *time.Location, abs int64) int64 {
	_, o := time.Unix(abs-epoch, 0).In(loc).Zone()
	return int64(o)
}

func main() {
	every := 1
	if len(os.Args) > 1 && os.Args[1] == "quick" {
		every = 12
	}
	zs := zones()
	evals, failures, gaps := 0, 0, 0
	for zi, z := range zs {
		if zi%every != 0 {
			continue
		}
		loc, _ := time.LoadLocation(z)
		// find offset changes between 1900 and 2060 by bisection over days
		t := time.Date(1900, 1, 1, 0, 0, 0, 0, time.UTC)
		end := time.Date(2060, 1, 1, 0, 0, 0, 0, time.UTC)
		_, prev := t.In(loc).Zone()
		for t.Before(end) {
			n := t.Add(24 * time.Hour)
			_, o := n.In(loc).Zone()
			if o != prev {
				// sample every 10 minutes of the two civil days around the change
				base := n.In(loc)
				y, m, d := base.Date()
				for dd := -1; dd <= 1; dd++ {
					for mins := 0; mins < 24*60; mins += 10 {
						h, mi := mins/60, mins%60
						got := time.Date(y, m, d+dd, h, mi, 0, 0, loc)
						// civil seconds C of the requested fields (computed in UTC)
						C := time.Date(y, m, d+dd, h, mi, 0, 0, time.UTC).Unix() + epoch
						abs := got.Unix() + epoch
						evals++
						if want := C - off(loc, C-off(loc, C)); abs != want {
							failures++
							fmt.Printf("FAIL A1 %s %04d-%02d-%02d %02d:%02d: time.Date gives %d, the model %d\n", z, y, m, d+dd, h, mi, abs, want)
						}
						// does the civil time exist? search the candidate instants C - o for the offsets in force nearby
						exists := false
						for _, cand := range []int64{C - off(loc, C-86400), C - off(loc, C), C - off(loc, C+86400)} {
							if cand+off(loc, cand) == C {
								exists = true
							}
						}
						gy, gm, gd := got.Date()
						ref := time.Date(y, m, d+dd, h, mi, 0, 0, time.UTC)
						ry, rm, rd := ref.Date()
						same := gy == ry && gm == rm && gd == rd && got.Hour() == h && got.Minute() == mi && got.Second() == 0
						if exists && !same {
							failures++
							fmt.Printf("FAIL A2 %s %04d-%02d-%02d %02d:%02d exists but time.Date gives %v\n", z, y, m, d+dd, h, mi, got)
						}
						if !exists {
							gaps++
						}
					}
				}
				prev = o
			}
			t = n
		}
	}
	fmt.Printf("timeconf: %d zones sampled, %d evaluations, %d civil times in gaps, %d failures\n", (len(zs)+every-1)/every, evals, gaps, failures)
	if failures > 0 {
		os.Exit(1)
	}
}
