package vc

import (
	"bytes"
	"context"
	"fmt"
	"os"
	"os/exec"
	"path/filepath"
	"sort"
	"strings"
	"sync"
	"time"
)

// Query is one proof obligation: Hyps |- Goal.
type Query struct {
	Hyps []*Term
	Goal *Term
	// NoAxioms: label prefixes of axioms that are not given to the solver for this query
	// (contract attribute `noaxioms`: the proof treats those spec functions as uninterpreted)
	NoAxioms []string
	// Opaque: name prefixes of defined spec functions that are left uninterpreted in this query
	// (contract attribute `opaque`; sound: the solver knows less)
	Opaque []string
	// ProvingLemma: the goal is a spec lemma; no lemma may be used as an axiom
	ProvingLemma bool
}

// Prelude knows about spec functions, axioms and string literals.
type Prelude struct {
	DB       *SpecDB
	Defs     map[string]*DefFun // defined spec functions (translated)
	Axioms   []*AxiomT          // translated axioms (incl. proven lemmas)
	StrLits  map[string]string  // symbol name -> Go string content
	BoxFacts map[string][]*Term // symbol -> facts to add when symbol is used
}

type DefFun struct {
	Name   string
	Params []*Term
	Ret    Sort
	Body   *Term
}

type AxiomT struct {
	Trig  []string
	Label string
	T     *Term
	syms  map[string]SymSig
	Lemma bool
}

var builtinDecls = map[string]string{
	"rowview":    "(declare-fun rowview ((Array Int Int) Int) (Array Int Int))",
	"json.other": "(declare-fun json.other ((Array Int Int) Int) Str)",
	"idx":        "(declare-fun idx (Int Int) Int)",
	"slen":       "(declare-fun slen (Str) Int)",
	"sat":        "(declare-fun sat (Str Int) Int)",
}

func builtinAxioms(sym string) []string {
	switch sym {
	case "rowview":
		return []string{"(assert (forall ((r (Array Int Int)) (o Int) (k Int)) (! (= (select (rowview r o) k) (select r (+ o k))) :pattern ((select (rowview r o) k)))))"}
	case "streq":
		// Go string equality: reflexive, symmetric, and implied by identity of the terms
		return []string{"(assert (forall ((a Str) (b Str)) (! (=> (= a b) (streq a b)) :pattern ((streq a b)))))",
			"(assert (forall ((a Str) (b Str)) (! (= (streq a b) (streq b a)) :pattern ((streq a b)))))"}
	case "slen":
		return []string{"(assert (forall ((s Str)) (! (and (<= 0 (slen s)) (< (slen s) 281474976710656)) :pattern ((slen s)))))"}
	case "idx":
		return []string{"(assert (forall ((o Int) (i Int)) (! (= (idx o i) (+ o i)) :pattern ((idx o i)))))"}
	case "sat":
		return []string{"(assert (forall ((s Str) (i Int)) (! (and (<= 0 (sat s i)) (< (sat s i) 256)) :pattern ((sat s i)))))"}
	}
	return nil
}

// Emit renders the SMT-LIB text of a query. Returns text and the list of axiom labels included.
func (p *Prelude) Emit(q *Query, wantModel bool) (string, []string) {
	syms := map[string]SymSig{}
	collectSymbols(append(append([]*Term(nil), q.Hyps...), q.Goal), syms)

	// closure over definitions, axioms, string literal facts
	usedDefs := map[string]bool{}
	usedAx := map[int]bool{}
	extra := []*Term{}
	usedFacts := map[string]bool{}
	changed := true
	for changed {
		changed = false
		for name := range syms {
			isOpaque := false
			for _, pre := range q.Opaque {
				if strings.HasPrefix(name, pre) {
					isOpaque = true
				}
			}
			if d, ok := p.Defs[name]; ok && !usedDefs[name] && !isOpaque {
				usedDefs[name] = true
				inner := map[string]SymSig{}
				d.Body.Symbols(inner)
				for _, prm := range d.Params {
					delete(inner, prm.Name)
				}
				for k, v := range inner {
					if _, ok := syms[k]; !ok {
						syms[k] = v
						changed = true
					}
				}
			}
			if fs, ok := p.BoxFacts[name]; ok && !usedFacts[name] {
				usedFacts[name] = true
				for _, f := range fs {
					extra = append(extra, f)
					inner := map[string]SymSig{}
					f.Symbols(inner)
					for k, v := range inner {
						if _, ok := syms[k]; !ok {
							syms[k] = v
							changed = true
						}
					}
				}
			}
		}
		for i, ax := range p.Axioms {
			if usedAx[i] {
				continue
			}
			skip := q.ProvingLemma && ax.Lemma
			for _, pre := range q.NoAxioms {
				if ax.Lemma {
					break // noaxioms never hides a proved lemma
				}
				if strings.HasPrefix(ax.Label, pre) {
					skip = true
				}
			}
			if skip {
				continue
			}
			trig := false
			if len(ax.Trig) > 0 {
				for _, k := range ax.Trig {
					if _, ok := syms[k]; ok {
						trig = true
					}
				}
			} else {
				for k := range ax.syms {
					if _, isDef := p.Defs[k]; isDef {
						// defined functions also trigger
					}
					if _, ok := syms[k]; ok && k != "slen" && k != "sat" {
						trig = true
						break
					}
				}
			}
			if trig {
				usedAx[i] = true
				for k, v := range ax.syms {
					if _, ok := syms[k]; !ok {
						syms[k] = v
						changed = true
					}
				}
			}
		}
	}

	var b strings.Builder
	if wantModel {
		b.WriteString("(set-option :produce-models true)\n")
	}
	b.WriteString("(set-logic ALL)\n")
	// sorts
	sorts := map[string]bool{}
	addSort := func(s Sort) {
		str := string(s)
		str = strings.NewReplacer("(", " ", ")", " ").Replace(str)
		for _, w := range strings.Fields(str) {
			if w != "Array" && w != "Int" && w != "Bool" {
				sorts[w] = true
			}
		}
	}
	for _, sig := range syms {
		addSort(sig.Ret)
		for _, a := range sig.Args {
			addSort(a)
		}
	}
	for name := range usedDefs {
		d := p.Defs[name]
		addSort(d.Ret)
		for _, prm := range d.Params {
			addSort(prm.Sort)
		}
	}
	// quantifier-bound sorts
	{
		// bound-variable sorts (DAG traversal)
		vis := map[*Term]bool{}
		var rec func(t *Term)
		rec = func(t *Term) {
			if vis[t] {
				return
			}
			vis[t] = true
			for _, bv := range t.Bound {
				addSort(bv.Sort)
			}
			for _, a := range t.Args {
				rec(a)
			}
		}
		for _, h := range q.Hyps {
			rec(h)
		}
		rec(q.Goal)
		for i := range usedAx {
			rec(p.Axioms[i].T)
		}
		for _, f := range extra {
			rec(f)
		}
	}
	for n := range syms {
		if _, ok := p.StrLits[n]; ok {
			syms["slen"] = SymSig{Name: "slen", Args: []Sort{SStr}, Ret: SInt}
			if len(p.StrLits[n]) > 0 {
				syms["sat"] = SymSig{Name: "sat", Args: []Sort{SStr, SInt}, Ret: SInt}
			}
		}
	}
	if _, ok := syms["slen"]; ok {
		sorts["Str"] = true
	}
	for _, s := range SortedKeys(sorts) {
		fmt.Fprintf(&b, "(declare-sort %s 0)\n", s)
	}
	// declarations
	names := SortedKeys(syms)
	for _, n := range names {
		if usedDefs[n] {
			continue
		}
		if d, ok := builtinDecls[n]; ok {
			b.WriteString(d + "\n")
			continue
		}
		sig := syms[n]
		if len(sig.Args) == 0 {
			fmt.Fprintf(&b, "(declare-const %s %s)\n", quoteSym(n), sig.Ret)
		} else {
			as := []string{}
			for _, a := range sig.Args {
				as = append(as, string(a))
			}
			fmt.Fprintf(&b, "(declare-fun %s (%s) %s)\n", quoteSym(n), strings.Join(as, " "), sig.Ret)
		}
	}
	// definitions in dependency order
	emitted := map[string]bool{}
	var emitDef func(n string)
	emitDef = func(n string) {
		if emitted[n] {
			return
		}
		emitted[n] = true
		d := p.Defs[n]
		inner := map[string]SymSig{}
		d.Body.Symbols(inner)
		for _, k := range SortedKeys(inner) {
			if usedDefs[k] {
				emitDef(k)
			}
		}
		ps := []string{}
		for _, prm := range d.Params {
			ps = append(ps, "("+quoteSym(prm.Name)+" "+string(prm.Sort)+")")
		}
		fmt.Fprintf(&b, "(define-fun %s (%s) %s %s)\n", quoteSym(n), strings.Join(ps, " "), d.Ret, d.Body)
	}
	for _, n := range SortedKeys(usedDefs) {
		emitDef(n)
	}
	for _, n := range names {
		for _, a := range builtinAxioms(n) {
			b.WriteString(a + "\n")
		}
	}
	// string literal facts
	for _, n := range names {
		if content, ok := p.StrLits[n]; ok {
			fmt.Fprintf(&b, "(assert (= (slen %s) %d))\n", quoteSym(n), len(content))
			for i := 0; i < len(content); i++ {
				fmt.Fprintf(&b, "(assert (= (sat %s %d) %d))\n", quoteSym(n), i, content[i])
			}
		}
	}
	var labels []string
	axIdx := []int{}
	for i := range usedAx {
		axIdx = append(axIdx, i)
	}
	sort.Ints(axIdx)
	for _, i := range axIdx {
		ax := p.Axioms[i]
		labels = append(labels, ax.Label)
		fmt.Fprintf(&b, "; axiom %s\n(assert %s)\n", ax.Label, ax.T)
	}
	roots := append(append(append([]*Term(nil), extra...), q.Hyps...), q.Goal)
	dp := newDagPrinter(roots)
	var body strings.Builder
	for _, f := range extra {
		fmt.Fprintf(&body, "(assert %s)\n", dp.print(f))
	}
	for _, h := range q.Hyps {
		fmt.Fprintf(&body, "(assert %s)\n", dp.print(h))
	}
	fmt.Fprintf(&body, "; goal\n(assert (not %s))\n(check-sat)\n", dp.print(q.Goal))
	for _, d := range dp.defs {
		b.WriteString(d + "\n")
	}
	b.WriteString(body.String())
	if wantModel {
		b.WriteString("(get-model)\n")
	}
	return b.String(), labels
}

// ---------------- solver race ----------------

type SolverResult struct {
	Status string // unsat, sat, unknown, timeout, error
	Solver string
	Time   float64
	Output string
}

type solverCfg struct {
	name string
	args func(file string, timeoutS int) []string
}

var solverCfgs = []solverCfg{
	{"z3-4.8.12", func(f string, t int) []string { return []string{"z3", fmt.Sprintf("-T:%d", t), f} }},
	{"z3-5.1.0", func(f string, t int) []string { return []string{"z3-new", fmt.Sprintf("-T:%d", t), f} }},
	{"cvc5-1.0.3", func(f string, t int) []string {
		return []string{"cvc5", fmt.Sprintf("--tlimit=%d", t*1000), f}
	}},
	{"z3-4.8.12-arith2", func(f string, t int) []string {
		return []string{"z3", "smt.arith.solver=2", fmt.Sprintf("-T:%d", t), f}
	}},
}

func runSolver(ctx context.Context, cfg solverCfg, file string, timeoutS int) SolverResult {
	argv := cfg.args(file, timeoutS)
	start := time.Now()
	cctx, cancel := context.WithTimeout(ctx, time.Duration(timeoutS+2)*time.Second)
	defer cancel()
	cmd := exec.CommandContext(cctx, argv[0], argv[1:]...)
	var out bytes.Buffer
	cmd.Stdout = &out
	cmd.Stderr = &out
	err := cmd.Run()
	el := time.Since(start).Seconds()
	text := out.String()
	first := strings.TrimSpace(strings.SplitN(text, "\n", 2)[0])
	res := SolverResult{Solver: cfg.name, Time: el, Output: text}
	switch first {
	case "unsat", "sat", "unknown":
		res.Status = first
	case "timeout":
		res.Status = "timeout"
	default:
		if cctx.Err() != nil {
			res.Status = "timeout"
		} else if err != nil || first != "" {
			res.Status = "error"
			if strings.Contains(text, "timeout") || strings.Contains(text, "interrupted") {
				res.Status = "timeout"
			}
		} else {
			res.Status = "unknown"
		}
	}
	return res
}

// Discharge runs the query. Fast path: z3 4.8.12 alone with a short limit; then a race.
// CrossCheck (thorough tier): an obligation that one solver proves is handed to a solver of another family
// (z3 4.8 <-> z3 5.1 / cvc5) as well. A second `unsat` is recorded as a confirmation; a `sat` against an
// `unsat` is a disagreement between solvers and is reported as an engine problem, never as a proof.
var CrossCheck bool

// crossCheck returns "confirmed", "unconfirmed" (the other solvers gave up) or "disagree".
func crossCheck(first SolverResult, file string, timeoutS int) (string, []SolverResult) {
	var tried []SolverResult
	order := []int{1, 2, 0} // z3 5.1, cvc5, z3 4.8
	for _, i := range order {
		cfg := solverCfgs[i]
		if strings.HasPrefix(first.Solver, cfg.name) || (strings.HasPrefix(first.Solver, "z3-4.8.12") && cfg.name == "z3-4.8.12") {
			continue
		}
		r := runSolver(context.Background(), cfg, file, timeoutS)
		tried = append(tried, r)
		if r.Status == "unsat" {
			return "confirmed", tried
		}
		if r.Status == "sat" {
			return "disagree", tried
		}
	}
	return "unconfirmed", tried
}

func Discharge(file string, timeoutS int) (SolverResult, []SolverResult) {
	res, all := discharge1(file, timeoutS)
	if CrossCheck && res.Status == "unsat" && res.Solver != "simplifier" {
		verdict, tried := crossCheck(res, file, timeoutS)
		all = append(all, tried...)
		switch verdict {
		case "confirmed":
			res.Output = "cross-check: confirmed by " + tried[len(tried)-1].Solver
		case "disagree":
			return SolverResult{Status: "disagree", Solver: res.Solver + " vs " + tried[len(tried)-1].Solver, Time: res.Time,
				Output: "solvers disagree: " + res.Solver + " says unsat, " + tried[len(tried)-1].Solver + " says sat"}, all
		default:
			res.Output = "cross-check: unconfirmed"
		}
	}
	return res, all
}

func discharge1(file string, timeoutS int) (SolverResult, []SolverResult) {
	var all []SolverResult
	quick := 2
	if timeoutS < quick {
		quick = timeoutS
	}
	r := runSolver(context.Background(), solverCfgs[0], file, quick)
	all = append(all, r)
	if r.Status == "unsat" || r.Status == "sat" {
		return r, all
	}
	ctx, cancel := context.WithCancel(context.Background())
	defer cancel()
	ch := make(chan SolverResult, len(solverCfgs))
	var wg sync.WaitGroup
	for _, cfg := range solverCfgs {
		wg.Add(1)
		go func(cfg solverCfg) {
			defer wg.Done()
			ch <- runSolver(ctx, cfg, file, timeoutS)
		}(cfg)
	}
	go func() { wg.Wait(); close(ch) }()
	var best *SolverResult
	for res := range ch {
		all = append(all, res)
		if res.Status == "unsat" || res.Status == "sat" {
			if best == nil {
				rr := res
				best = &rr
				cancel()
			}
		}
	}
	if best != nil {
		return *best, all
	}
	// in the report: unknown before timeout before error (a solver that rejects the query text says nothing
	// about the obligation when another one ran out of time on it)
	final := SolverResult{Status: "error", Solver: "all"}
	for _, r := range all {
		if r.Status == "error" {
			final = r
		}
	}
	for _, r := range all {
		if r.Status == "timeout" {
			final = SolverResult{Status: "timeout", Solver: "all"}
		}
	}
	for _, r := range all {
		if r.Status == "unknown" {
			final = SolverResult{Status: "unknown", Solver: "all"}
		}
	}
	return final, all
}

func WriteQuery(dir, name, text string) (string, error) {
	if err := os.MkdirAll(dir, 0o755); err != nil {
		return "", err
	}
	safe := strings.Map(func(r rune) rune {
		if r >= 'a' && r <= 'z' || r >= 'A' && r <= 'Z' || r >= '0' && r <= '9' || r == '.' || r == '-' || r == '_' {
			return r
		}
		return '_'
	}, name)
	if len(safe) > 180 {
		safe = safe[:180]
	}
	p := filepath.Join(dir, safe+".smt2")
	return p, os.WriteFile(p, []byte(text), 0o644)
}

// ---------------------------------------------------------------------------
// DAG printer: large closed subterms that occur more than once are emitted once as
// (define-fun $sN () Sort ...), so that the query text is linear in the size of the
// term DAG (merged heaps are ite-DAGs with heavy sharing).

type dagPrinter struct {
	refs       map[Key]int
	boundNames map[string]bool
	closed     map[Key]bool
	names      map[Key]string
	defs       []string
	n          int
}

func newDagPrinter(roots []*Term) *dagPrinter {
	dp := &dagPrinter{refs: map[Key]int{}, boundNames: map[string]bool{}, closed: map[Key]bool{}, names: map[Key]string{}}
	visited := map[Key]bool{}
	var count func(t *Term)
	count = func(t *Term) {
		k := t.Key()
		dp.refs[k]++
		if visited[k] {
			return
		}
		visited[k] = true
		for _, b := range t.Bound {
			dp.boundNames[b.Name] = true
		}
		for _, a := range t.Args {
			count(a)
		}
	}
	for _, r := range roots {
		count(r)
	}
	return dp
}

func (dp *dagPrinter) isClosed(t *Term) bool {
	k := t.Key()
	if v, ok := dp.closed[k]; ok {
		return v
	}
	c := true
	if t.Op == "var" && dp.boundNames[t.Name] {
		c = false
	}
	if c {
		for _, a := range t.Args {
			if !dp.isClosed(a) {
				c = false
				break
			}
		}
	}
	dp.closed[k] = c
	return c
}

func (dp *dagPrinter) print(t *Term) string {
	k := t.Key()
	if n, ok := dp.names[k]; ok {
		return n
	}
	if len(t.Args) == 0 && len(t.Bound) == 0 {
		return t.String()
	}
	body := dp.raw(t)
	if dp.refs[k] > 1 && t.Size() >= 12 && dp.isClosed(t) {
		dp.n++
		name := fmt.Sprintf("$s%d", dp.n)
		dp.defs = append(dp.defs, fmt.Sprintf("(define-fun %s () %s %s)", name, t.Sort, body))
		dp.names[k] = name
		return name
	}
	return body
}

func (dp *dagPrinter) raw(t *Term) string {
	switch t.Op {
	case "lit", "var":
		return t.String()
	case "app":
		if len(t.Args) == 0 {
			return quoteSym(t.Name)
		}
		parts := []string{quoteSym(t.Name)}
		for _, a := range t.Args {
			parts = append(parts, dp.print(a))
		}
		return "(" + strings.Join(parts, " ") + ")"
	case "forall", "exists":
		bs := []string{}
		for _, b := range t.Bound {
			bs = append(bs, "("+quoteSym(b.Name)+" "+string(b.Sort)+")")
		}
		return "(" + t.Op + " (" + strings.Join(bs, " ") + ") " + dp.print(t.Args[0]) + ")"
	case "constarr":
		return "((as const " + string(t.Sort) + ") " + dp.print(t.Args[0]) + ")"
	}
	parts := []string{t.Op}
	for _, a := range t.Args {
		parts = append(parts, dp.print(a))
	}
	return "(" + strings.Join(parts, " ") + ")"
}
