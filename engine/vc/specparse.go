package vc

// Contract / spec expression language: lexer and Pratt parser.
//
//   expr  := ('forall'|'exists') binders '::' expr
//          | expr '==>' expr | expr '<==>' expr | expr '||' expr | expr '&&' expr
//          | expr cmp expr | expr ('+'|'-') expr | expr ('*'|'/'|'%') expr
//          | '!' expr | '-' expr | postfix
//   postfix := primary { '(' args ')' | '[' expr ']' | '[' expr? ':' expr? ']' | '.' ident }
//   primary := int | 'c' | "str" | ident | '(' expr ')' | 'old' '(' expr ')' | '(' c '?' a ':' b ')'
//
// '/' and '%' are the SMT-LIB div and mod (euclidean); on non-negative operands
// they coincide with Go's.

import (
	"fmt"
	"math/big"
	"strconv"
	"strings"
)

type Expr interface{}

type EInt struct{ V *big.Int }
type EBool struct{ V bool }
type EStr struct{ S string }
type EIdent struct{ Name string }
type EBin struct {
	Op   string
	L, R Expr
}
type EUn struct {
	Op string
	X  Expr
}
type ECall struct {
	Fn   Expr
	Args []Expr
}
type EIndex struct{ X, I Expr }
type ESlice struct{ X, Lo, Hi Expr }
type EField struct {
	X    Expr
	Name string
}
type Binder struct{ Name, Type string }
type EQuant struct {
	Kind string
	Vars []Binder
	Body Expr
}
type EOld struct{ X Expr }
type ECond struct{ C, A, B Expr }

type tok struct {
	kind string // int, str, char, ident, op, eof
	text string
	pos  int
}

type lexer struct {
	src  string
	toks []tok
}

func lex(src string) ([]tok, error) {
	var toks []tok
	i := 0
	for i < len(src) {
		c := src[i]
		switch {
		case c == ' ' || c == '\t' || c == '\n' || c == '\r':
			i++
		case c >= '0' && c <= '9':
			j := i
			if c == '0' && j+1 < len(src) && (src[j+1] == 'x' || src[j+1] == 'X') {
				j += 2
				for j < len(src) && strings.ContainsRune("0123456789abcdefABCDEF_", rune(src[j])) {
					j++
				}
			} else {
				for j < len(src) && (src[j] >= '0' && src[j] <= '9' || src[j] == '_') {
					j++
				}
			}
			toks = append(toks, tok{"int", src[i:j], i})
			i = j
		case c == '"':
			j := i + 1
			for j < len(src) && src[j] != '"' {
				if src[j] == '\\' {
					j++
				}
				j++
			}
			if j >= len(src) {
				return nil, fmt.Errorf("unterminated string at %d", i)
			}
			s, err := strconv.Unquote(src[i : j+1])
			if err != nil {
				return nil, err
			}
			toks = append(toks, tok{"str", s, i})
			i = j + 1
		case c == '\'':
			j := i + 1
			for j < len(src) && src[j] != '\'' {
				if src[j] == '\\' {
					j++
				}
				j++
			}
			if j >= len(src) {
				return nil, fmt.Errorf("unterminated char at %d", i)
			}
			r, _, _, err := strconv.UnquoteChar(src[i+1:j], '\'')
			if err != nil {
				return nil, err
			}
			toks = append(toks, tok{"int", strconv.Itoa(int(r)), i})
			i = j + 1
		case c == '_' || c == '$' || c >= 'a' && c <= 'z' || c >= 'A' && c <= 'Z':
			j := i
			for j < len(src) && (src[j] == '_' || src[j] == '$' || src[j] >= 'a' && src[j] <= 'z' || src[j] >= 'A' && src[j] <= 'Z' || src[j] >= '0' && src[j] <= '9') {
				j++
			}
			toks = append(toks, tok{"ident", src[i:j], i})
			i = j
		default:
			ops := []string{"<==>", "==>", "::", "==", "!=", "<=", ">=", "&&", "||", "<", ">", "+", "-", "*", "/", "%", "!", "(", ")", "[", "]", ",", ".", ":", "?"}
			found := false
			for _, op := range ops {
				if strings.HasPrefix(src[i:], op) {
					toks = append(toks, tok{"op", op, i})
					i += len(op)
					found = true
					break
				}
			}
			if !found {
				return nil, fmt.Errorf("unexpected character %q at %d in %q", c, i, src)
			}
		}
	}
	toks = append(toks, tok{"eof", "", len(src)})
	return toks, nil
}

type parser struct {
	toks []tok
	p    int
	src  string
}

func ParseExpr(src string) (e Expr, err error) {
	toks, err := lex(src)
	if err != nil {
		return nil, err
	}
	ps := &parser{toks: toks, src: src}
	defer func() {
		if r := recover(); r != nil {
			if pe, ok := r.(parseErr); ok {
				err = fmt.Errorf("%s in %q", string(pe), src)
				return
			}
			panic(r)
		}
	}()
	e = ps.expr(0)
	if ps.peek().kind != "eof" {
		ps.fail("unexpected %q", ps.peek().text)
	}
	return e, nil
}

type parseErr string

func (ps *parser) fail(f string, a ...interface{}) {
	panic(parseErr(fmt.Sprintf("parse error at %d: ", ps.peek().pos) + fmt.Sprintf(f, a...)))
}
func (ps *parser) peek() tok { return ps.toks[ps.p] }
func (ps *parser) next() tok { t := ps.toks[ps.p]; ps.p++; return t }
func (ps *parser) isOp(s string) bool {
	t := ps.peek()
	return t.kind == "op" && t.text == s
}
func (ps *parser) expect(s string) {
	if !ps.isOp(s) {
		ps.fail("expected %q, got %q", s, ps.peek().text)
	}
	ps.next()
}

var binPrec = map[string]int{
	"<==>": 1, "==>": 2, "||": 3, "&&": 4,
	"==": 5, "!=": 5, "<": 5, "<=": 5, ">": 5, ">=": 5,
	"+": 6, "-": 6, "*": 7, "/": 7, "%": 7,
}

func (ps *parser) expr(minPrec int) Expr {
	t := ps.peek()
	if t.kind == "ident" && (t.text == "forall" || t.text == "exists") {
		ps.next()
		q := &EQuant{Kind: t.text}
		for {
			n := ps.next()
			if n.kind != "ident" {
				ps.fail("binder name expected")
			}
			ty := ps.next()
			if ty.kind != "ident" {
				ps.fail("binder type expected")
			}
			q.Vars = append(q.Vars, Binder{n.text, ty.text})
			if ps.isOp(",") {
				ps.next()
				continue
			}
			break
		}
		ps.expect("::")
		q.Body = ps.expr(0)
		return q
	}
	lhs := ps.unary()
	for {
		t := ps.peek()
		if t.kind != "op" {
			break
		}
		prec, ok := binPrec[t.text]
		if !ok || prec < minPrec {
			break
		}
		ps.next()
		var rhs Expr
		if t.text == "==>" {
			rhs = ps.expr(prec) // right assoc
		} else {
			rhs = ps.expr(prec + 1)
		}
		lhs = &EBin{Op: t.text, L: lhs, R: rhs}
	}
	return lhs
}

func (ps *parser) unary() Expr {
	if ps.isOp("!") {
		ps.next()
		return &EUn{"!", ps.unary()}
	}
	if ps.isOp("-") {
		ps.next()
		return &EUn{"-", ps.unary()}
	}
	return ps.postfix()
}

func (ps *parser) postfix() Expr {
	e := ps.primary()
	for {
		switch {
		case ps.isOp("("):
			ps.next()
			var args []Expr
			if !ps.isOp(")") {
				for {
					args = append(args, ps.expr(0))
					if ps.isOp(",") {
						ps.next()
						continue
					}
					break
				}
			}
			ps.expect(")")
			if id, ok := e.(*EIdent); ok && id.Name == "old" && len(args) == 1 {
				e = &EOld{args[0]}
			} else {
				e = &ECall{Fn: e, Args: args}
			}
		case ps.isOp("["):
			ps.next()
			var lo, hi Expr
			if !ps.isOp(":") {
				lo = ps.expr(0)
			}
			if ps.isOp(":") {
				ps.next()
				if !ps.isOp("]") {
					hi = ps.expr(0)
				}
				ps.expect("]")
				e = &ESlice{e, lo, hi}
			} else {
				ps.expect("]")
				e = &EIndex{e, lo}
			}
		case ps.isOp("."):
			ps.next()
			n := ps.next()
			if n.kind != "ident" {
				ps.fail("field name expected")
			}
			e = &EField{e, n.text}
		default:
			return e
		}
	}
}

func (ps *parser) primary() Expr {
	t := ps.next()
	switch t.kind {
	case "int":
		txt := strings.ReplaceAll(t.text, "_", "")
		v := new(big.Int)
		if _, ok := v.SetString(txt, 0); !ok {
			ps.fail("bad integer %q", t.text)
		}
		return &EInt{v}
	case "str":
		return &EStr{t.text}
	case "ident":
		switch t.text {
		case "true":
			return &EBool{true}
		case "false":
			return &EBool{false}
		}
		return &EIdent{t.text}
	case "op":
		if t.text == "(" {
			e := ps.expr(0)
			if ps.isOp("?") {
				ps.next()
				a := ps.expr(0)
				ps.expect(":")
				b := ps.expr(0)
				ps.expect(")")
				return &ECond{e, a, b}
			}
			ps.expect(")")
			return e
		}
		if t.text == "*" { // dereference: *x
			return &EUn{"*", ps.unary()}
		}
	}
	ps.p--
	ps.fail("unexpected %q", t.text)
	return nil
}

// QualifiedName returns "a.b.c" if e is a chain of identifiers.
func QualifiedName(e Expr) (string, bool) {
	switch x := e.(type) {
	case *EIdent:
		return x.Name, true
	case *EField:
		if p, ok := QualifiedName(x.X); ok {
			return p + "." + x.Name, true
		}
	}
	return "", false
}

func ExprString(e Expr) string {
	switch x := e.(type) {
	case *EInt:
		return x.V.String()
	case *EBool:
		return fmt.Sprint(x.V)
	case *EStr:
		return strconv.Quote(x.S)
	case *EIdent:
		return x.Name
	case *EBin:
		return "(" + ExprString(x.L) + " " + x.Op + " " + ExprString(x.R) + ")"
	case *EUn:
		return x.Op + ExprString(x.X)
	case *ECall:
		as := []string{}
		for _, a := range x.Args {
			as = append(as, ExprString(a))
		}
		return ExprString(x.Fn) + "(" + strings.Join(as, ", ") + ")"
	case *EIndex:
		return ExprString(x.X) + "[" + ExprString(x.I) + "]"
	case *ESlice:
		lo, hi := "", ""
		if x.Lo != nil {
			lo = ExprString(x.Lo)
		}
		if x.Hi != nil {
			hi = ExprString(x.Hi)
		}
		return ExprString(x.X) + "[" + lo + ":" + hi + "]"
	case *EField:
		return ExprString(x.X) + "." + x.Name
	case *EQuant:
		vs := []string{}
		for _, v := range x.Vars {
			vs = append(vs, v.Name+" "+v.Type)
		}
		return "(" + x.Kind + " " + strings.Join(vs, ", ") + " :: " + ExprString(x.Body) + ")"
	case *EOld:
		return "old(" + ExprString(x.X) + ")"
	case *ECond:
		return "(" + ExprString(x.C) + " ? " + ExprString(x.A) + " : " + ExprString(x.B) + ")"
	}
	return fmt.Sprintf("%v", e)
}
