package vc

import (
	"go/types"

	"golang.org/x/tools/go/ssa"
)

const unixToInternal = 62135596800

func timeParts(v Value) (abs, ns, loc *Term, vs *VStruct) {
	vs = v.(*VStruct)
	return vs.Fields[0].(*Term), vs.Fields[1].(*Term), vs.Fields[2].(*Term), vs
}

func (ex *Exec) mkTime(abs, ns, loc *Term) *VStruct {
	t := ex.lookupNamed("time.Time")
	return &VStruct{T: t, Names: []string{"abs", "ns", "loc"}, Fields: []Value{abs, ns, loc}}
}

func locTerm(ex *Exec, st *State, v Value, instr ssa.Instruction) *Term {
	p := v.(*VPtr)
	if p.Nil.IsTrue() {
		return Var("time.UTC", "Loc")
	}
	o := ex.load(st, p, instr).(*VStruct)
	return o.Fields[0].(*Term)
}

func init() {
	field := func(name string) libModel {
		return func(ex *Exec, st *State, instr ssa.Instruction, args []Value) Value {
			abs, _, loc, _ := timeParts(args[0])
			return App(name, SInt, abs, loc)
		}
	}
	reg("(time.Time).Year", field("time.year"))
	reg("(time.Time).Month", field("time.month"))
	reg("(time.Time).Day", field("time.day"))
	reg("(time.Time).Hour", field("time.hour"))
	reg("(time.Time).Minute", field("time.minute"))
	reg("(time.Time).Second", field("time.second"))
	reg("(time.Time).Weekday", field("time.weekday"))
	reg("(time.Time).IsZero", func(ex *Exec, st *State, instr ssa.Instruction, args []Value) Value {
		abs, ns, _, _ := timeParts(args[0])
		return And(Eq(abs, IntLit(0)), Eq(ns, IntLit(0)))
	})
	reg("(time.Time).UnixMilli", func(ex *Exec, st *State, instr ssa.Instruction, args []Value) Value {
		abs, ns, _, _ := timeParts(args[0])
		r := Add(Mul(Sub(abs, IntLit(unixToInternal)), IntLit(1000)), EDiv(ns, IntLit(1000000)))
		ex.check(st, "overflow", instr, And(Le(IntLit(-1<<62), r), Le(r, IntLit(1<<62))), "UnixMilli outside int64 (behaviour undefined by the library)")
		return r
	})
	reg("(time.Time).Unix", func(ex *Exec, st *State, instr ssa.Instruction, args []Value) Value {
		abs, _, _, _ := timeParts(args[0])
		return Sub(abs, IntLit(unixToInternal))
	})
	reg("(time.Time).Add", func(ex *Exec, st *State, instr ssa.Instruction, args []Value) Value {
		abs, ns, loc, _ := timeParts(args[0])
		d := args[1].(*Term)
		tot := Add(ns, d)
		return ex.mkTime(Add(abs, EDiv(tot, IntLit(1000000000))), EMod(tot, IntLit(1000000000)), loc)
	})
	reg("(time.Time).Truncate", func(ex *Exec, st *State, instr ssa.Instruction, args []Value) Value {
		abs, _, loc, _ := timeParts(args[0])
		d := args[1].(*Term)
		if v, ok := d.Int64(); ok && v == 1000000000 {
			return ex.mkTime(abs, IntLit(0), loc)
		}
		r := ex.symbolicValue(st, ex.lookupNamed("time.Time"), ex.fresh("trunc", SInt).Name, 0).(*VStruct)
		return r
	})
	reg("(time.Time).In", func(ex *Exec, st *State, instr ssa.Instruction, args []Value) Value {
		abs, ns, _, _ := timeParts(args[0])
		return ex.mkTime(abs, ns, locTerm(ex, st, args[1], instr))
	})
	reg("(time.Time).UTC", func(ex *Exec, st *State, instr ssa.Instruction, args []Value) Value {
		abs, ns, _, _ := timeParts(args[0])
		return ex.mkTime(abs, ns, Var("time.UTC", "Loc"))
	})
	reg("(time.Time).Local", func(ex *Exec, st *State, instr ssa.Instruction, args []Value) Value {
		abs, ns, _, _ := timeParts(args[0])
		return ex.mkTime(abs, ns, Var("time.Local", "Loc"))
	})
	// time.After(d): a channel that delivers once d has passed; receiving from it holds the caller for d
	// (the same event on the ghost clock as time.Sleep(d))
	reg("time.After", func(ex *Exec, st *State, instr ssa.Instruction, args []Value) Value {
		id := ex.fresh("timer", SInt)
		st.assume(Eq(App("chan.cap", SInt, id), IntLit(1)))
		st.ghost["$timer!"+id.Name] = args[0]
		return &VOpaque{T: instr.(ssa.Value).Type(), ID: id}
	})
	reg("time.Now", func(ex *Exec, st *State, instr ssa.Instruction, args []Value) Value {
		abs := ex.fresh("now.abs", SInt)
		ns := ex.fresh("now.ns", SInt)
		st.assume(And(Le(IntLit(0), ns), Lt(ns, IntLit(1000000000))))
		// ghost clock: time.Now is non-decreasing
		if prev, ok := st.ghost["$clock"].(*Term); ok {
			st.assume(Le(prev, abs))
		}
		st.ghost["$clock"] = abs
		// a wall clock reading: after 1970, before year 9999
		st.assume(And(Le(IntLit(unixToInternal), abs), Le(abs, IntLit(315537897599))))
		return ex.mkTime(abs, ns, Var("time.Local", "Loc"))
	})
	reg("(time.Month).String", func(ex *Exec, st *State, instr ssa.Instruction, args []Value) Value {
		return ex.fresh("month.str", SStr)
	})
	reg("(time.Weekday).String", func(ex *Exec, st *State, instr ssa.Instruction, args []Value) Value {
		return App("time.weekdayName", SStr, args[0].(*Term))
	})
	reg("(time.Duration).String", func(ex *Exec, st *State, instr ssa.Instruction, args []Value) Value { return ex.fresh("dur.str", SStr) })
	reg("(time.Time).String", func(ex *Exec, st *State, instr ssa.Instruction, args []Value) Value {
		return ex.fresh("time.str", SStr)
	})
	reg("(time.Time).Format", modelTimeFormat)
	reg("time.Date", modelTimeDate)
	reg("time.ParseInLocation", modelParseInLocation)

	locGlobal := func(name string) func(ex *Exec, st *State, t types.Type) Value {
		return func(ex *Exec, st *State, t types.Type) Value {
			lt := ex.lookupNamed("time.Location")
			obj := ex.newObject(name+".*", lt, false)
			st.mem[obj] = &VStruct{T: lt, Names: []string{"id"}, Fields: []Value{Var(name, "Loc")}}
			return &VPtr{Nil: False, Obj: obj, T: lt}
		}
	}
	libGlobals["time.Local"] = locGlobal("time.Local")
	libGlobals["time.UTC"] = locGlobal("time.UTC")
}

// layout tokens of the reference layouts used in the repository
type layTok struct {
	kind string // year4 year2 month day hour minute second lit
	lit  byte
}

func parseLayout(layout string) ([]layTok, bool) {
	var out []layTok
	i := 0
	for i < len(layout) {
		rest := layout[i:]
		switch {
		case rest == "MST" && len(out) > 0 && out[len(out)-1].kind == "lit":
			out = append(out, layTok{kind: "zoneMST"})
			i += 3
		case rest == "-0700" && len(out) > 0 && out[len(out)-1].kind == "lit":
			out = append(out, layTok{kind: "zoneNum"})
			i += 5
		case len(rest) >= 4 && rest[:4] == "2006":
			out = append(out, layTok{kind: "year4"})
			i += 4
		case len(rest) >= 2 && rest[:2] == "06":
			out = append(out, layTok{kind: "year2"})
			i += 2
		case len(rest) >= 2 && rest[:2] == "01":
			out = append(out, layTok{kind: "month"})
			i += 2
		case len(rest) >= 2 && rest[:2] == "02":
			out = append(out, layTok{kind: "day"})
			i += 2
		case len(rest) >= 2 && rest[:2] == "15":
			out = append(out, layTok{kind: "hour"})
			i += 2
		case len(rest) >= 2 && rest[:2] == "04":
			out = append(out, layTok{kind: "minute"})
			i += 2
		case len(rest) >= 2 && rest[:2] == "05":
			out = append(out, layTok{kind: "second"})
			i += 2
		default:
			c := rest[0]
			if c >= '0' && c <= '9' || c >= 'a' && c <= 'z' || c >= 'A' && c <= 'Z' || c == '_' || c == '.' || c == ',' {
				return nil, false // MST, Jan, Mon, PM, fractional seconds ...: no contract
			}
			out = append(out, layTok{kind: "lit", lit: c})
			i++
		}
	}
	return out, true
}

func layoutLen(toks []layTok) int {
	n := 0
	for _, t := range toks {
		switch t.kind {
		case "year4":
			n += 4
		case "lit":
			n++
		case "zoneMST", "zoneNum":
			// variable width: not part of the fixed prefix
		default:
			n += 2
		}
	}
	return n
}

// two decimal digit characters of a value 0..99
func twoDigits(v *Term) (*Term, *Term) {
	return Add(IntLit(48), EDiv(v, IntLit(10))), Add(IntLit(48), EMod(v, IntLit(10)))
}

func modelTimeFormat(ex *Exec, st *State, instr ssa.Instruction, args []Value) Value {
	abs, _, loc, _ := timeParts(args[0])
	lay, ok := ex.strLitContent(args[1].(*Term))
	if !ok {
		return ex.fresh("format", SStr)
	}
	toks, ok := parseLayout(lay)
	if ok && toks[len(toks)-1].kind == "zoneNum" {
		ok = false
	}
	if !ok {
		ex.cur.libCalls["time.Format layout "+lay+" (no contract: opaque string)"] = true
		return ex.fresh("format", SStr)
	}
	zoned := toks[len(toks)-1].kind == "zoneMST"
	year := App("time.year", SInt, abs, loc)
	hasYear4 := false
	for _, t := range toks {
		if t.kind == "year4" {
			hasYear4 = true
		}
	}
	if hasYear4 {
		// Format pads the year to at least 4 digits; outside 0..9999 the width differs: no contract
		if !ex.decide(st, And(Le(IntLit(0), year), Le(year, IntLit(9999)))) {
			// a year outside 0..9999 is written with up to 12 digits and a sign
			r := ex.fresh("format", SStr)
			st.assume(Le(App("slen", SInt, r), IntLit(int64(layoutLen(toks)+9))))
			return r
		}
	}
	r := ex.fresh("format", SStr)
	n := layoutLen(toks)
	if zoned {
		// the zone designation (spec/time.spec: time.zonename) follows the fixed-width part
		z := App("time.zonename", SStr, loc, abs)
		zl := App("slen", SInt, z)
		st.assume(And(Le(IntLit(1), zl), Le(zl, IntLit(16))))
		st.assume(Eq(App("slen", SInt, r), Add(IntLit(int64(n)), zl)))
		st.assume(Eq(App("str.tail", SStr, r, IntLit(int64(n))), z))
		ex.cur.libCalls["time.Format layout with MST (zone designation: spec function time.zonename)"] = true
	} else {
		st.assume(Eq(App("slen", SInt, r), IntLit(int64(n))))
		ex.cur.strLens[r.Key()] = int64(n)
	}
	pos := int64(0)
	put := func(c *Term) {
		st.assume(Eq(App("sat", SInt, r, IntLit(pos)), c))
		pos++
	}
	put2 := func(v *Term) {
		a, b := twoDigits(v)
		put(a)
		put(b)
	}
	for _, t := range toks {
		switch t.kind {
		case "year4":
			put2(EDiv(year, IntLit(100)))
			put2(EMod(year, IntLit(100)))
		case "year2":
			put2(EMod(year, IntLit(100)))
		case "month":
			put2(App("time.month", SInt, abs, loc))
		case "day":
			put2(App("time.day", SInt, abs, loc))
		case "hour":
			put2(App("time.hour", SInt, abs, loc))
		case "minute":
			put2(App("time.minute", SInt, abs, loc))
		case "second":
			put2(App("time.second", SInt, abs, loc))
		case "lit":
			put(IntLit(int64(t.lit)))
		}
	}
	return r
}

func isDigitT(c *Term) *Term { return And(Le(IntLit(48), c), Le(c, IntLit(57))) }

func modelParseInLocation(ex *Exec, st *State, instr ssa.Instruction, args []Value) Value {
	lay, ok := ex.strLitContent(args[0].(*Term))
	s := args[1].(*Term)
	loc := locTerm(ex, st, args[2], instr)
	tt := ex.lookupNamed("time.Time")
	opaque := func() Value {
		t := ex.symbolicValue(st, tt, ex.fresh("parsed", SInt).Name, 0)
		return tuple(t, ex.maybeError(st, "parse"))
	}
	if !ok {
		return opaque()
	}
	toks, ok := parseLayout(lay)
	if !ok {
		ex.cur.libCalls["time.ParseInLocation layout "+lay+" (no contract: arbitrary result)"] = true
		return opaque()
	}
	n := int64(layoutLen(toks))
	slen := App("slen", SInt, s)
	if kn, ok := ex.knownStrLen(st, s); ok {
		slen = IntLit(kn)
	}
	zoneKind := ""
	if k := toks[len(toks)-1].kind; k == "zoneMST" || k == "zoneNum" {
		zoneKind = k
		toks = toks[:len(toks)-1]
	}
	if zoneKind != "" {
		// the fixed-width part and at least one character of zone designation
		if ex.decide(st, Le(slen, IntLit(n))) {
			return tuple(ex.zeroValue(tt), ex.newError(st, "parse"))
		}
	} else {
		if ex.decide(st, Gt(slen, IntLit(n))) {
			// longer input: after a seconds field a '.' or ',' starts fractional seconds (not modelled);
			// anything else is "extra text", an error
			if toks[len(toks)-1].kind != "second" {
				return tuple(ex.zeroValue(tt), ex.newError(st, "parse"))
			}
			c := App("sat", SInt, s, IntLit(n))
			if ex.decide(st, Or(Eq(c, IntLit('.')), Eq(c, IntLit(',')))) {
				return opaque()
			}
			return tuple(ex.zeroValue(tt), ex.newError(st, "parse"))
		}
		if ex.decide(st, Lt(slen, IntLit(n))) {
			return tuple(ex.zeroValue(tt), ex.newError(st, "parse"))
		}
	}
	// exact length: shape and fields
	var shape []*Term
	pos := int64(0)
	ch := func() *Term {
		c := App("sat", SInt, s, IntLit(pos))
		pos++
		return c
	}
	num2 := func() *Term {
		a, b := ch(), ch()
		shape = append(shape, isDigitT(a), isDigitT(b))
		return Add(Mul(Sub(a, IntLit(48)), IntLit(10)), Sub(b, IntLit(48)))
	}
	year, month, day := IntLit(0), IntLit(1), IntLit(1)
	hour, minute, second := IntLit(0), IntLit(0), IntLit(0)
	for _, t := range toks {
		switch t.kind {
		case "year4":
			hi := num2()
			lo := num2()
			year = Add(Mul(hi, IntLit(100)), lo)
		case "year2":
			yy := num2()
			year = Ite(Ge(yy, IntLit(69)), Add(IntLit(1900), yy), Add(IntLit(2000), yy))
		case "month":
			month = num2()
		case "day":
			day = num2()
		case "hour":
			hour = num2()
		case "minute":
			minute = num2()
		case "second":
			second = num2()
		case "lit":
			shape = append(shape, Eq(ch(), IntLit(int64(t.lit))))
		}
	}
	valid := And(And(shape...), App("time.validDate", SBool, year, month, day), App("time.validClock", SBool, hour, minute, second))
	if !ex.decide(st, valid) {
		return tuple(ex.zeroValue(tt), ex.newError(st, "parse"))
	}
	c := App("time.civil", SInt, year, month, day, hour, minute, second)
	if zoneKind != "" {
		// zone designation after the fixed-width part (spec/time.spec, "zone designations"): its form decides
		// whether the layout accepts it; an abbreviation is looked up in the location, a numeric offset applied
		ex.cur.libCalls["time.ParseInLocation layout with "+map[string]string{"zoneMST": "MST", "zoneNum": "-0700"}[zoneKind]+" (zone designation: spec functions time.zoneform / lookupOK / lookupOff / numoff)"] = true
		z := App("str.tail", SStr, s, IntLit(n))
		form := App("time.zoneform", SInt, z)
		if zoneKind == "zoneMST" {
			if ex.decide(st, Eq(form, IntLit(0))) { // "UTC"
				return tuple(ex.mkTime(c, IntLit(0), Var("time.UTC", "Loc")), nilIface())
			}
			if !ex.decide(st, Or(Eq(form, IntLit(1)), Eq(form, IntLit(2)))) {
				return tuple(ex.zeroValue(tt), ex.newError(st, "parse"))
			}
			if ex.decide(st, App("time.lookupOK", SBool, loc, z, c)) {
				return tuple(ex.mkTime(Sub(c, App("time.lookupOff", SInt, loc, z, c)), IntLit(0), loc), nilIface())
			}
			// unknown abbreviation: a fabricated zone (offset 0, or the hours of GMT+h)
			fz := ex.fresh("fixedzone", "Loc")
			return tuple(ex.mkTime(Sub(c, App("time.gmtoff", SInt, z)), IntLit(0), fz), nilIface())
		}
		// -0700: sign, two digits of hours, two digits of minutes
		if !ex.decide(st, Eq(form, IntLit(3))) {
			return tuple(ex.zeroValue(tt), ex.newError(st, "parse"))
		}
		abs := Sub(c, App("time.numoff", SInt, z))
		rl := ex.fresh("parsedzone", "Loc") // the location if its offset agrees, else a fixed zone: either way this offset
		st.assume(Eq(App("time.off", SInt, rl, abs), App("time.numoff", SInt, z)))
		return tuple(ex.mkTime(abs, IntLit(0), rl), nilIface())
	}
	abs := App("time.dateAbs", SInt, c, loc)
	// remember the parsed fields (ghost) for contracts: parse.fields(result) - via naming
	res := ex.mkTime(abs, IntLit(0), loc)
	return tuple(res, nilIface())
}

func modelTimeDate(ex *Exec, st *State, instr ssa.Instruction, args []Value) Value {
	y, m, d := args[0].(*Term), args[1].(*Term), args[2].(*Term)
	h, mi, s, ns := args[3].(*Term), args[4].(*Term), args[5].(*Term), args[6].(*Term)
	loc := locTerm(ex, st, args[7], instr)
	tt := ex.lookupNamed("time.Time")
	norm := And(App("time.validDate", SBool, y, m, d), App("time.validClock", SBool, h, mi, s), Le(IntLit(0), ns), Lt(ns, IntLit(1000000000)))
	if !ex.decide(st, norm) {
		// out-of-range arguments are normalised by the library: not modelled
		return ex.symbolicValue(st, tt, ex.fresh("date", SInt).Name, 0)
	}
	c := App("time.civil", SInt, y, m, d, h, mi, s)
	return ex.mkTime(App("time.dateAbs", SInt, c, loc), ns, loc)
}
