package vc

import (
	"fmt"
	"go/token"
	"go/types"
	"os"
	"runtime/debug"
	"sort"
	"strings"
	"sync/atomic"
	"time"

	"golang.org/x/tools/go/ssa"
)

// ---------------------------------------------------------------------------
// Exec: one verification session over a loaded program.

type Obligation struct {
	Func   string // function under verification (contract key)
	Name   string // class:label or class@site
	Class  string // ensures, requires, loop.entry, loop.preserve, decreases, index, slice, nil, nilmap, assert, div, panic, overflow, frame, lemma, cover
	Hyps   []*Term
	Goal   *Term
	Pos    string
	Via    string // inlined callee, if any
	Cover  bool   // a cover query: expected NOT to be unsat
	Detail string
	// results
	Status       string
	Solver       string
	Time         float64
	File         string
	AllRes       []SolverResult
	Cross        string // thorough tier: confirmed / unconfirmed by a solver of another family
	Axioms       []string
	NoAxioms     []string
	Opaque       []string
	ProvingLemma bool
	FindingHyp   *Term // negated characteristic predicate of a listed known finding
	retried      bool
}

func (o *Obligation) FullName() string { return o.Func + "#" + o.Name }

type Exec struct {
	Prog       *ssa.Program
	ModulePath string
	Spec       *SpecDB
	Prelude    *Prelude
	Contracts  map[string]*Contract
	FuncByKey  map[string]*ssa.Function

	typeIDs    map[string]int
	typeByID   map[int]types.Type
	namedCache map[string]types.Type
	strLits    map[string]*Term
	freshN     int
	objN       int

	globals        map[string]*Object
	ginit          map[*ssa.Package]*globalInit
	mutGlobals     map[*ssa.Global]bool
	closureAlias   map[*ssa.Function]string // anonymous functions whose contract is written under another ordinal (AlignClosures)
	AliasNotes     []string
	LocalsBaseline map[string][]LocalInfo // spec/locals_baseline.json
	FuncsBaseline  map[string]string      // function key -> signature at baseline time ("$functions" of the same file)
	applyingFn     *ssa.Function          // callee whose contract is being applied at a call site
	globalRows     map[*ssa.Global]int64  // heap rows of package-level arrays of the module
	inInit         bool
	initHeaps      map[string]*Term
	initFacts      []*Term
	initMem        map[*Object]Value
	initAlloc      int64
	initBoxes      map[int64]Value

	Findings map[string]*Finding
	regexps  map[int64]string

	// per-function run
	cur         *funcRun
	MaxPaths    int
	GenBudgetS  int // wall-clock budget for the VC generation of one function (0 = none)
	MaxObls     int
	MaxHeapMB   int
	MaxUnroll   int
	MaxInline   int
	OverflowChk bool
	Verbose     bool
	Merge       bool
}

type funcRun struct {
	key                string
	fn                 *ssa.Function
	contract           *Contract
	obls               []*Obligation
	paths              int
	unsupported        []string
	inlined            map[string]bool
	libCalls           map[string]bool
	unmodelled         map[string]bool
	contractsUsed      map[string]bool
	trustedUsed        map[string]bool
	siteIDs            map[*ssa.Function]map[ssa.Instruction]int
	reachedReturn      int
	merges             int
	allocObjs          map[string]*Object
	strLens            map[Key]int64
	ensuresAnteReached map[string]bool
	started            time.Time
}

type unsupportedErr struct{ msg string }

func (ex *Exec) unsupported(f string, a ...interface{}) {
	panic(unsupportedErr{fmt.Sprintf(f, a...)})
}

func NewExec(prog *ssa.Program, module string, spec *SpecDB, contracts map[string]*Contract) *Exec {
	ex := &Exec{
		Prog: prog, ModulePath: module, Spec: spec, Contracts: contracts,
		typeIDs: map[string]int{}, typeByID: map[int]types.Type{}, namedCache: map[string]types.Type{},
		strLits: map[string]*Term{}, FuncByKey: map[string]*ssa.Function{},
		GenBudgetS: 120, MaxObls: 8000, MaxHeapMB: 5000, MaxPaths: 20000, MaxUnroll: 40, MaxInline: 6, OverflowChk: true, Merge: true,
	}
	ex.Prelude = &Prelude{DB: spec, Defs: map[string]*DefFun{}, StrLits: map[string]string{}, BoxFacts: map[string][]*Term{}}
	return ex
}

func (ex *Exec) fresh(prefix string, s Sort) *Term {
	ex.freshN++
	return Var(fmt.Sprintf("%s!%d", prefix, ex.freshN), s)
}

func (ex *Exec) strLit(s string) *Term {
	if t, ok := ex.strLits[s]; ok {
		return t
	}
	name := fmt.Sprintf("strlit!%d", len(ex.strLits))
	t := Var(name, SStr)
	ex.strLits[s] = t
	ex.Prelude.StrLits[name] = s
	return t
}

func (ex *Exec) strLitContent(t *Term) (string, bool) {
	if t.Op == "var" {
		c, ok := ex.Prelude.StrLits[t.Name]
		return c, ok
	}
	return "", false
}

func (ex *Exec) newObject(name string, t types.Type, fresh bool) *Object {
	ex.objN++
	return &Object{ID: ex.objN, Name: name, T: t, Fresh: fresh}
}

// FuncKey: contract key of an SSA function.
func (ex *Exec) FuncKey(fn *ssa.Function) string {
	if o := fn.Origin(); o != nil {
		fn = o
	}
	if k, ok := ex.closureAlias[fn]; ok {
		return k
	}
	root := fn
	for root.Parent() != nil {
		root = root.Parent()
	}
	pkgPath := ""
	if root.Pkg != nil {
		pkgPath = root.Pkg.Pkg.Path()
	} else if root.Signature.Recv() != nil {
		if n := namedOf(root.Signature.Recv().Type()); n != nil && n.Obj().Pkg() != nil {
			pkgPath = n.Obj().Pkg().Path()
		}
	}
	prefix := ""
	if recv := root.Signature.Recv(); recv != nil {
		rt := recv.Type()
		star := ""
		if p, ok := rt.(*types.Pointer); ok {
			star = "*"
			rt = p.Elem()
		}
		if n := namedOf(rt); n != nil {
			prefix = "(" + star + n.Obj().Name() + ")."
		}
	}
	return pkgPath + "." + prefix + fn.Name()
}

func namedOf(t types.Type) *types.Named {
	if p, ok := t.(*types.Pointer); ok {
		t = p.Elem()
	}
	n, _ := t.(*types.Named)
	return n
}

// ---------------------------------------------------------------------------
// State

type deferred struct {
	call *ssa.CallCommon
	fn   Value
	args []Value
	inst *ssa.Defer
}

type loopCtx struct {
	head     *ssa.BasicBlock
	info     *loopInfo
	spec     *LoopSpec
	measure0 *Term
	ordinal  int
}

type Frame struct {
	fn            *ssa.Function
	block         *ssa.BasicBlock
	prev          *ssa.BasicBlock
	idx           int
	regs          map[ssa.Value]Value
	defers        []deferred
	loops         []*loopCtx
	loopShift     map[int]bool // loops taken to be new, unspecified ones (see loopSpecFor)
	visits        map[*ssa.BasicBlock]int
	callInstr     ssa.Instruction // in the caller frame: the call instruction awaiting the result
	runningDefers bool
	allocCount    map[ssa.Instruction]int
	instance      int
	pendingRet    []Value
	returning     bool
	deferResume   int
}

type State struct {
	pc        []*Term
	seen      *seenSet
	frames    []*Frame
	mem       map[*Object]Value
	heaps     map[string]*Term
	alloc     *Term
	freshRefs []*Term
	decided   map[Key]bool
	ifaceRes  map[*VIface]int
	ghost     map[string]Value
	boxes     map[int64]Value
	nbox      *int64
	// entry snapshot for old()
	entry     *State
	alloc0    *Term
	paramVals map[string]Value
	results   []Value
	impls     []*Term
	released  bool
	steps     int
	id        int
}

func (st *State) clone() *State {
	checkAbort()
	n := &State{
		pc:  append([]*Term(nil), st.pc...),
		mem: map[*Object]Value{}, heaps: map[string]*Term{}, alloc: st.alloc,
		freshRefs: append([]*Term(nil), st.freshRefs...),
		decided:   map[Key]bool{}, ifaceRes: map[*VIface]int{}, ghost: map[string]Value{},
		boxes: st.boxes, nbox: st.nbox, entry: st.entry, alloc0: st.alloc0, paramVals: st.paramVals,
		impls: append([]*Term(nil), st.impls...),
		steps: st.steps,
	}
	frozen := st.seen
	st.seen = newSeen(frozen)
	n.seen = newSeen(frozen)
	for k, v := range st.mem {
		n.mem[k] = v
	}
	for k, v := range st.heaps {
		n.heaps[k] = v
	}
	for k, v := range st.decided {
		n.decided[k] = v
	}
	for k, v := range st.ifaceRes {
		n.ifaceRes[k] = v
	}
	for k, v := range st.ghost {
		n.ghost[k] = v
	}
	for _, f := range st.frames {
		nf := *f
		nf.regs = map[ssa.Value]Value{}
		for k, v := range f.regs {
			nf.regs[k] = v
		}
		nf.visits = map[*ssa.BasicBlock]int{}
		for k, v := range f.visits {
			nf.visits[k] = v
		}
		if f.allocCount != nil {
			nf.allocCount = map[ssa.Instruction]int{}
			for k, v := range f.allocCount {
				nf.allocCount[k] = v
			}
		}
		nf.defers = append([]deferred(nil), f.defers...)
		nf.loops = append([]*loopCtx(nil), f.loops...)
		nf.pendingRet = append([]Value(nil), f.pendingRet...)
		n.frames = append(n.frames, &nf)
	}
	return n
}

// abortFlag is set by the memory watchdog; the executor checks it at cheap, frequent points.
var abortFlag atomic.Int32

func checkAbort() {
	if abortFlag.Load() != 0 {
		if os.Getenv("GOVC_ABORTSTACK") != "" {
			os.Stderr.Write(debug.Stack())
		}
		panic(unsupportedErr{"VC generation exceeded the memory budget (path explosion)"})
	}
}

func (st *State) assume(t *Term) {
	if t == nil || t.IsTrue() {
		return
	}
	checkAbort()
	if t.Op == "and" {
		for _, a := range t.Args {
			st.assume(a)
		}
		return
	}
	k := t.Key()
	if st.seen.Has(k) {
		return
	}
	st.seen.Add(k)
	st.pc = append(st.pc, t)
	// light forward chaining: a => b with a known gives b
	if t.Op == "=>" {
		if a := t.Args[0]; a.Op == "var" && strings.HasPrefix(a.Name, "path!") {
			return // path selectors of merged states are never asserted
		}
		if st.knows(t.Args[0]) {
			st.assume(t.Args[1])
		} else {
			st.impls = append(st.impls, t)
		}
		return
	}
	if len(st.impls) > 0 {
		rest := st.impls[:0:0]
		var fire []*Term
		for _, im := range st.impls {
			if st.knows(im.Args[0]) {
				fire = append(fire, im.Args[1])
			} else {
				rest = append(rest, im)
			}
		}
		st.impls = rest
		for _, f := range fire {
			st.assume(f)
		}
	}
}

// knows: t is syntactically among the assumptions (conjunctions component-wise).
func (st *State) knows(t *Term) bool {
	if t.IsTrue() {
		return true
	}
	if t.Op == "and" {
		for _, a := range t.Args {
			if !st.knows(a) {
				return false
			}
		}
		return true
	}
	return st.seen.Has(t.Key())
}

func (st *State) top() *Frame { return st.frames[len(st.frames)-1] }

func (st *State) heap(key string, s Sort) *Term {
	if h, ok := st.heaps[key]; ok {
		return h
	}
	h := Var(key+"@0", s)
	st.heaps[key] = h
	// type safety of the initial heap: every reference stored in memory that exists at function
	// entry points to memory that exists at function entry (it cannot be a later allocation)
	// (not in the package initialiser's run, where nothing exists at entry: alloc0 is the literal 0)
	if a0, isLit := int64(-1), false; st.alloc0 != nil {
		a0, isLit = st.alloc0.Int64()
		if isLit && a0 == 0 {
			return h
		}
	}
	if (strings.HasSuffix(key, ".$ref") || strings.HasSuffix(key, ".$mref")) && st.alloc0 != nil && s == SHInt {
		r, i := Var("r!ht", SInt), Var("i!ht", SInt)
		cell := Select(Select(h, r), i)
		st.assume(Forall([]*Term{r, i}, And(Le(IntLit(0), cell), Lt(cell, st.alloc0))))
	}
	return h
}

// ---------------------------------------------------------------------------
// split mechanism: an instruction may request a case split and be re-executed.

type splitRequest struct{ states []*State }

// DebugSplits, when non-nil, counts case splits by condition (development aid).
var DebugSplits map[string]int

// decide returns the truth value of cond on this path, splitting the path if it
// is not already decided.
func (ex *Exec) decide(st *State, cond *Term) bool {
	if cond.IsTrue() {
		return true
	}
	if cond.IsFalse() {
		return false
	}
	key := cond.Key()
	if v, ok := st.decided[key]; ok {
		return v
	}
	if st.seen.Has(key) {
		return true
	}
	if st.seen.Has(Not(cond).Key()) {
		return false
	}
	if DebugSplits != nil {
		k := cond.String()
		if len(k) > 140 {
			k = k[:140]
		}
		DebugSplits[k]++
	}
	a := st.clone()
	a.decided[key] = true
	a.assume(cond)
	b := st.clone()
	b.decided[key] = false
	b.assume(Not(cond))
	panic(splitRequest{[]*State{a, b}})
}

// ---------------------------------------------------------------------------
// obligations

func (ex *Exec) oblige(st *State, class, name string, goal *Term, pos token.Pos, detail string) {
	if goal.IsTrue() {
		// discharged by the simplifier; still counted
		ex.cur.obls = append(ex.cur.obls, &Obligation{Func: ex.cur.key, Name: name, Class: class, Goal: goal, Status: "unsat", Solver: "simplifier", Pos: ex.posString(pos), Detail: detail})
		return
	}
	// a conjunctive goal is discharged conjunct by conjunct (smaller, more stable queries)
	if class == "ensures" || class == "requires" || class == "loop.preserve" || class == "loop.entry" {
		if parts := splitGoal(goal); len(parts) > 1 && len(parts) <= 96 {
			for _, g := range parts {
				ex.oblige1(st, class, name, g, pos, detail)
			}
			return
		}
	}
	ex.oblige1(st, class, name, goal, pos, detail)
}

// splitGoal: top-level conjuncts of a goal, also under an implication.
func splitGoal(t *Term) []*Term {
	switch t.Op {
	case "and":
		var out []*Term
		for _, a := range t.Args {
			out = append(out, splitGoal(a)...)
		}
		return out
	case "=>":
		if len(t.Args) == 2 {
			cs := splitGoal(t.Args[1])
			if len(cs) > 1 {
				out := make([]*Term, len(cs))
				for i, c := range cs {
					out[i] = Implies(t.Args[0], c)
				}
				return out
			}
		}
	}
	return []*Term{t}
}

func (ex *Exec) oblige1(st *State, class, name string, goal *Term, pos token.Pos, detail string) {
	if goal.IsTrue() {
		ex.cur.obls = append(ex.cur.obls, &Obligation{Func: ex.cur.key, Name: name, Class: class, Goal: goal, Status: "unsat", Solver: "simplifier", Pos: ex.posString(pos), Detail: detail})
		return
	}
	via := ""
	if len(st.frames) > 1 {
		via = ex.FuncKey(st.top().fn)
	}
	o := &Obligation{
		Func: ex.cur.key, Name: name, Class: class, Hyps: append([]*Term(nil), st.pc...), Goal: goal,
		Pos: ex.posString(pos), Via: via, Detail: detail,
	}
	if f := ex.Findings[shortObl(o.FullName())]; f != nil {
		o.FindingHyp = False
		if f.whenExpr != nil {
			o.FindingHyp = Not(ex.evalBool(st, f.whenExpr, ex.contractEnv(st, nil), &Clause{File: "known_findings.txt"}))
		}
	}
	if ct := ex.cur.contract; ct != nil && ct.Attrs["opaque"] != "" {
		for _, p := range strings.Split(ct.Attrs["opaque"], ",") {
			o.Opaque = append(o.Opaque, strings.TrimSpace(p))
		}
	}
	if ct := ex.cur.contract; ct != nil && ct.Attrs["noaxioms"] != "" {
		for _, p := range strings.Split(ct.Attrs["noaxioms"], ",") {
			o.NoAxioms = append(o.NoAxioms, strings.TrimSpace(p))
		}
	}
	ex.cur.obls = append(ex.cur.obls, o)
}

func (ex *Exec) posString(p token.Pos) string {
	if !p.IsValid() {
		return ""
	}
	pp := ex.Prog.Fset.Position(p)
	return fmt.Sprintf("%s:%d", pp.Filename, pp.Line)
}

// check emits a run-time-check obligation and then assumes the condition.
func (ex *Exec) check(st *State, class string, instr ssa.Instruction, cond *Term, detail string) {
	if cond.IsTrue() {
		return
	}
	name := fmt.Sprintf("%s@%s", class, ex.siteName(st, instr, class))
	pos := token.NoPos
	if instr != nil {
		pos = instr.Pos()
	}
	ex.oblige(st, class, name, cond, pos, detail)
	st.assume(cond)
}

// siteName: stable ordinal of the instruction among the instructions of its function.
func (ex *Exec) siteName(st *State, instr ssa.Instruction, class string) string {
	if instr == nil {
		return "?"
	}
	fn := instr.Parent()
	ids := ex.cur.siteIDs[fn]
	if ids == nil {
		ids = map[ssa.Instruction]int{}
		n := 0
		for _, b := range fn.Blocks {
			for _, in := range b.Instrs {
				n++
				ids[in] = n
			}
		}
		ex.cur.siteIDs[fn] = ids
	}
	prefix := ""
	if fn != ex.cur.fn {
		prefix = fn.Name() + ":"
	}
	desc := instrDesc(instr)
	return fmt.Sprintf("%s%s", prefix, desc)
}

// instrDesc: a description of an instruction that is stable under unrelated edits:
// the k-th instruction of its kind in the function.
func instrDesc(instr ssa.Instruction) string {
	fn := instr.Parent()
	kind := fmt.Sprintf("%T", instr)
	kind = strings.TrimPrefix(kind, "*ssa.")
	n := 0
	for _, b := range fn.Blocks {
		for _, in := range b.Instrs {
			if fmt.Sprintf("%T", in) == "*ssa."+kind {
				n++
			}
			if in == instr {
				return fmt.Sprintf("%s%d", kind, n)
			}
		}
	}
	return kind
}

// ---------------------------------------------------------------------------
// loop analysis

type loopInfo struct {
	head    *ssa.BasicBlock
	body    map[*ssa.BasicBlock]bool
	ordinal int
}

func findLoops(fn *ssa.Function) map[*ssa.BasicBlock]*loopInfo {
	loops := map[*ssa.BasicBlock]*loopInfo{}
	for _, b := range fn.Blocks {
		for _, s := range b.Succs {
			if s.Dominates(b) { // back edge b -> s
				li := loops[s]
				if li == nil {
					li = &loopInfo{head: s, body: map[*ssa.BasicBlock]bool{s: true}}
					loops[s] = li
				}
				// natural loop: all nodes that reach b without passing through s
				stack := []*ssa.BasicBlock{b}
				for len(stack) > 0 {
					x := stack[len(stack)-1]
					stack = stack[:len(stack)-1]
					if li.body[x] {
						continue
					}
					li.body[x] = true
					for _, p := range x.Preds {
						stack = append(stack, p)
					}
				}
			}
		}
	}
	heads := []*ssa.BasicBlock{}
	for h := range loops {
		heads = append(heads, h)
	}
	sort.Slice(heads, func(i, j int) bool { return heads[i].Index < heads[j].Index })
	for i, h := range heads {
		loops[h].ordinal = i + 1
	}
	return loops
}

// ---------------------------------------------------------------------------
// memory access

func (ex *Exec) loadPath(v Value, path []int) Value {
	for _, i := range path {
		vs, ok := v.(*VStruct)
		if !ok {
			panic(fmt.Sprintf("loadPath: not a struct: %T", v))
		}
		v = vs.Fields[i]
	}
	return v
}

func (ex *Exec) storePath(v Value, path []int, nv Value) Value {
	if len(path) == 0 {
		return nv
	}
	vs, ok := v.(*VStruct)
	if !ok {
		panic(fmt.Sprintf("storePath: not a struct: %T", v))
	}
	c := &VStruct{T: vs.T, Names: vs.Names, Fields: append([]Value(nil), vs.Fields...)}
	c.Fields[path[0]] = ex.storePath(vs.Fields[path[0]], path[1:], nv)
	return c
}

func (ex *Exec) load(st *State, p *VPtr, instr ssa.Instruction) Value {
	ex.check(st, "nil", instr, Not(p.Nil), "nil pointer dereference")
	if p.Obj != nil {
		v, ok := st.mem[p.Obj]
		if !ok {
			if iv, ok2 := ex.initMem[p.Obj]; ok2 {
				st.mem[p.Obj] = iv
				v = iv
			} else {
				panic("load: object without content: " + p.Obj.Name)
			}
		}
		return ex.loadPath(v, p.Path)
	}
	if p.ElemRef != nil {
		v := ex.heapLoad(st, p.ElemT, p.ElemRef, p.ElemIdx)
		return ex.loadPath(v, p.Path)
	}
	// only nil possible: unreachable after the check
	return ex.zeroValue(p.T)
}

func (ex *Exec) store(st *State, p *VPtr, v Value, instr ssa.Instruction) {
	ex.check(st, "nil", instr, Not(p.Nil), "nil pointer dereference")
	if p.Obj != nil {
		if _, ok := st.mem[p.Obj]; !ok {
			if iv, ok2 := ex.initMem[p.Obj]; ok2 {
				st.mem[p.Obj] = iv
			}
		}
		st.mem[p.Obj] = ex.storePath(st.mem[p.Obj], p.Path, v)
		return
	}
	if p.ElemRef != nil {
		ex.checkWritable(st, p.ElemRef, instr)
		if len(p.Path) > 0 {
			cur := ex.heapLoad(st, p.ElemT, p.ElemRef, p.ElemIdx)
			v = ex.storePath(cur, p.Path, v)
		}
		ex.heapStore(st, p.ElemT, p.ElemRef, p.ElemIdx, v)
	}
}

// checkWritable: frame condition. A heap row may be written only if it was
// allocated during this call or is listed in the function's modifies clause.
func (ex *Exec) checkWritable(st *State, ref *Term, instr ssa.Instruction) {
	for _, fr := range st.freshRefs {
		if Equal(fr, ref) {
			return
		}
	}
	conds := []*Term{Ge(ref, st.alloc0)}
	for _, m := range ex.modifiesRefs(st) {
		conds = append(conds, Eq(ref, m))
	}
	ex.check(st, "frame", instr, Or(conds...), "write to memory outside the modifies clause")
}

func (ex *Exec) modifiesRefs(st *State) []*Term {
	c := ex.cur.contract
	if c == nil {
		return nil
	}
	var refs []*Term
	for _, m := range c.Modifies {
		v := ex.evalIn(st.entryOrSelf(), m.E, ex.contractEnv(st, nil), nil)
		switch x := v.(type) {
		case *VSlice:
			refs = append(refs, x.Ref)
		case *VMap:
			refs = append(refs, x.Ref)
		}
	}
	return refs
}

func (st *State) entryOrSelf() *State {
	if st.entry != nil {
		return st.entry
	}
	return st
}

// heapLoad reads element idx of row ref at element type t.
func (ex *Exec) heapLoad(st *State, t types.Type, ref, idx *Term) Value {
	return ex.heapLoadFrom(st, st, t, ref, idx)
}

func (ex *Exec) heapLoadFrom(st *State, hs *State, t types.Type, ref, idx *Term) Value {
	leaves, err := ex.flattenType(t)
	if err != nil {
		ex.unsupported("%v", err)
	}
	vals := make([]*Term, len(leaves))
	for i, lf := range leaves {
		h := hs.heap(heapKey(t, lf), HeapOf(lf.Sort))
		v := Select(Select(h, ref), idx)
		vals[i] = v
		if lf.T != nil && lf.Sort == SInt && !v.IsIntLit() {
			st.assume(rangeFact(lf.T, v))
		}
	}
	pos := 0
	return ex.unflatten(st, t, vals, &pos)
}

func (ex *Exec) heapStore(st *State, t types.Type, ref, idx *Term, v Value) {
	leaves, err := ex.flattenType(t)
	if err != nil {
		ex.unsupported("%v", err)
	}
	vals := ex.flatten(st, t, v)
	if len(vals) != len(leaves) {
		panic(fmt.Sprintf("heapStore: leaf count mismatch for %s: %d vs %d", t, len(vals), len(leaves)))
	}
	for i, lf := range leaves {
		key := heapKey(t, lf)
		h := st.heap(key, HeapOf(lf.Sort))
		st.heaps[key] = Store(h, ref, Store(Select(h, ref), idx, vals[i]))
	}
}

// flatten a value into leaf terms (order of flattenType).
func (ex *Exec) flatten(st *State, t types.Type, v Value) []*Term {
	if typeKey(t) == "reflect.Value" {
		return []*Term{ex.box(st, v)}
	}
	if _, ok := leafSort(t); ok {
		return []*Term{v.(*Term)}
	}
	switch u := t.Underlying().(type) {
	case *types.Struct:
		vs := v.(*VStruct)
		_, ftypes, model, _ := ex.structLayout(t)
		var out []*Term
		if model != nil {
			for i := range model {
				out = append(out, vs.Fields[i].(*Term))
			}
			return out
		}
		for i, ft := range ftypes {
			out = append(out, ex.flatten(st, ft, vs.Fields[i])...)
		}
		return out
	case *types.Slice:
		s := v.(*VSlice)
		return []*Term{s.Ref, s.Off, s.Len, s.Cap}
	case *types.Map:
		return []*Term{v.(*VMap).Ref}
	case *types.Interface:
		iv := v.(*VIface)
		if len(iv.Alts) == 0 {
			pay := iv.Pay
			if pay == nil {
				pay = IntLit(0)
			}
			return []*Term{iv.Tag, pay}
		}
		return []*Term{iv.Tag, ex.box(st, v)}
	case *types.Pointer, *types.Signature, *types.Chan:
		return []*Term{ex.box(st, v)}
	default:
		_ = u
	}
	ex.unsupported("flatten: unsupported type %s", t)
	return nil
}

func (ex *Exec) box(st *State, v Value) *Term {
	*st.nbox = *st.nbox + 1
	id := *st.nbox
	st.boxes[id] = v
	// an interface value of one known dynamic type that goes into the heap: what a contract reads back from the
	// heap element with unbox("T", e) - the functions unbox[T].<leaf> of the payload - is this value
	if iv, ok := v.(*VIface); ok && len(iv.Alts) == 1 && !ex.inInit {
		alt := iv.Alts[0]
		if _, isStruct := alt.T.Underlying().(*types.Struct); isStruct {
			if leaves, err := ex.flattenType(alt.T); err == nil {
				if vals := ex.flattenSafe(st, alt.T, alt.Val); len(vals) == len(leaves) {
					for i, lf := range leaves {
						if vals[i].Sort == lf.Sort {
							st.assume(Eq(App("unbox["+typeKey(alt.T)+"]"+lf.Path, lf.Sort, IntLit(id)), vals[i]))
						}
					}
				}
			}
		}
	}
	return IntLit(id)
}

func (ex *Exec) flattenSafe(st *State, t types.Type, v Value) (out []*Term) {
	defer func() {
		if r := recover(); r != nil {
			if _, ok := r.(unsupportedErr); ok {
				out = nil
				return
			}
			panic(r)
		}
	}()
	return ex.flatten(st, t, v)
}

func (ex *Exec) unflatten(st *State, t types.Type, vals []*Term, pos *int) Value {
	if typeKey(t) == "reflect.Value" {
		b := vals[*pos]
		*pos++
		if id, ok := b.Int64(); ok {
			if bv, ok := st.boxes[id]; ok {
				return bv
			}
		}
		return &VReflect{}
	}
	if _, ok := leafSort(t); ok {
		v := vals[*pos]
		*pos++
		return v
	}
	switch u := t.Underlying().(type) {
	case *types.Struct:
		names, ftypes, model, _ := ex.structLayout(t)
		vs := &VStruct{T: t}
		if model != nil {
			for _, mf := range model {
				vs.Names = append(vs.Names, mf.Name)
				vs.Fields = append(vs.Fields, vals[*pos])
				*pos++
			}
			// representation invariant of the library type (type safety of the heap):
			// every value of the type ever stored satisfies it
			allLit := true
			for _, f := range vs.Fields {
				if ft, ok := f.(*Term); !ok || !(ft.IsIntLit() || ft.Op == "var") {
					allLit = false
				}
			}
			if !allLit {
				st.assume(ex.modelInvariant(t, vs))
			}
			return vs
		}
		vs.Names = names
		for _, ft := range ftypes {
			vs.Fields = append(vs.Fields, ex.unflatten(st, ft, vals, pos))
		}
		return vs
	case *types.Slice:
		s := &VSlice{Ref: vals[*pos], Off: vals[*pos+1], Len: vals[*pos+2], Cap: vals[*pos+3], Elem: u.Elem()}
		*pos += 4
		if !s.Len.IsIntLit() {
			st.assume(sliceWF(s))
		}
		return s
	case *types.Map:
		m := &VMap{Ref: vals[*pos], T: u}
		*pos++
		return m
	case *types.Interface:
		tag, pay := vals[*pos], vals[*pos+1]
		*pos += 2
		if id, ok := pay.Int64(); ok {
			if bv, ok := st.boxes[id]; ok {
				return bv
			}
		}
		if !tag.IsIntLit() {
			st.assume(Ge(tag, IntLit(0)))
		}
		return &VIface{Tag: tag, Pay: pay}
	case *types.Pointer, *types.Signature, *types.Chan:
		b := vals[*pos]
		*pos++
		if id, ok := b.Int64(); ok {
			if bv, ok := st.boxes[id]; ok {
				return bv
			}
			if id == 0 {
				return ex.zeroValue(t)
			}
		}
		if pt, ok := u.(*types.Pointer); ok {
			// a pointer read from a symbolic heap location: an unknown object of its own
			// (assumption: not aliased with objects the function otherwise knows)
			if _, isArr := pt.Elem().Underlying().(*types.Array); !isArr {
				obj := ex.newObject("heapptr", pt.Elem(), false)
				nm := ex.fresh("heapptr", SInt).Name
				st.mem[obj] = ex.symbolicValueSafe(st, pt.Elem(), nm)
				return &VPtr{Nil: Eq(b, IntLit(0)), Obj: obj, T: pt.Elem()}
			}
		}
		if _, ok := u.(*types.Signature); ok {
			if os.Getenv("GOVC_DEBUGMAP") != "" {
				bs := b.String()
				if len(bs) > 200 {
					bs = bs[:200]
				}
				fmt.Fprintf(os.Stderr, "heapfn from %s\n", bs)
			}
			return &VFunc{Sym: ex.fresh("heapfn", SInt).Name, Nil: Eq(b, IntLit(0))}
		}
		if _, ok := u.(*types.Chan); ok {
			return &VOpaque{T: t, ID: b}
		}
		ex.unsupported("load of a pointer/func value from a symbolic heap location (type %s)", t)
	}
	ex.unsupported("unflatten: unsupported type %s", t)
	return nil
}

func sliceWF(s *VSlice) *Term {
	return And(Le(IntLit(0), s.Ref), Le(IntLit(0), s.Off), Le(IntLit(0), s.Len), Le(s.Len, s.Cap),
		Le(Add(s.Off, s.Cap), IntLit(1<<48)),
		Implies(Eq(s.Ref, IntLit(0)), Eq(s.Cap, IntLit(0))))
}

// allocRow allocates a fresh heap row initialised with zero values of elem type t.
func (ex *Exec) allocRow(st *State, t types.Type) *Term {
	ref := st.alloc
	st.alloc = Add(st.alloc, IntLit(1))
	st.freshRefs = append(st.freshRefs, ref)
	leaves, err := ex.flattenType(t)
	if err != nil {
		ex.unsupported("%v", err)
	}
	zero := ex.flatten(st, t, ex.zeroValue(t))
	for i, lf := range leaves {
		key := heapKey(t, lf)
		h := st.heap(key, HeapOf(lf.Sort))
		st.heaps[key] = Store(h, ref, ConstArr(ArrayOf(lf.Sort), zero[i]))
	}
	return ref
}

// ---------------------------------------------------------------------------
// symbolic values

func (ex *Exec) symbolicValue(st *State, t types.Type, name string, depth int) Value {
	if s, ok := leafSort(t); ok {
		v := Var(name, s)
		if s == SInt {
			st.assume(rangeFact(t, v))
		}
		return v
	}
	switch u := t.Underlying().(type) {
	case *types.Struct:
		names, ftypes, model, _ := ex.structLayout(t)
		vs := &VStruct{T: t}
		if model != nil {
			for _, mf := range model {
				vs.Names = append(vs.Names, mf.Name)
				vs.Fields = append(vs.Fields, Var(name+"."+mf.Name, mf.Sort))
			}
			st.assume(ex.modelInvariant(t, vs))
			return vs
		}
		vs.Names = names
		for i, ft := range ftypes {
			vs.Fields = append(vs.Fields, ex.symbolicValue(st, ft, name+"."+names[i], depth))
		}
		return vs
	case *types.Slice:
		s := &VSlice{Ref: Var(name+".$ref", SInt), Off: Var(name+".$off", SInt), Len: Var(name+".$len", SInt), Cap: Var(name+".$cap", SInt), Elem: u.Elem()}
		st.assume(sliceWF(s))
		if st.alloc0 != nil {
			st.assume(Lt(s.Ref, st.alloc0))
		}
		ex.assumeRowTyping(st, s)
		return s
	case *types.Pointer:
		if depth > 3 {
			return &VPtr{Nil: True, T: u.Elem()}
		}
		if _, isArr := u.Elem().Underlying().(*types.Array); isArr {
			ex.unsupported("symbolic pointer to array %s", t)
		}
		obj := ex.newObject(name+".*", u.Elem(), false)
		st.mem[obj] = ex.symbolicValue(st, u.Elem(), name+".*", depth+1)
		return &VPtr{Nil: Var(name+".$nil", SBool), Obj: obj, T: u.Elem()}
	case *types.Interface:
		tag := Var(name+".$tag", SInt)
		st.assume(Ge(tag, IntLit(0)))
		return &VIface{Tag: tag, Pay: Var(name+".$pay", SInt)}
	case *types.Map:
		m := &VMap{Ref: Var(name+".$mref", SInt), T: u}
		st.assume(Ge(m.Ref, IntLit(0)))
		if st.alloc0 != nil {
			st.assume(Lt(m.Ref, st.alloc0))
		}
		return m
	case *types.Signature:
		return &VFunc{Sym: name, Nil: False}
	case *types.Chan:
		return &VOpaque{T: t, ID: Var(name+".$chan", SInt)}
	case *types.Basic:
		return &VOpaque{T: t, ID: Var(name+".$opaque", SInt)}
	}
	ex.unsupported("symbolicValue: unsupported type %s", t)
	return nil
}

// havocValue returns a value of the same shape with fresh leaves.
func (ex *Exec) havocValue(st *State, t types.Type, old Value, name string) Value {
	switch o := old.(type) {
	case *Term:
		v := ex.fresh(name, o.Sort)
		if o.Sort == SInt {
			st.assume(rangeFact(t, v))
		}
		return v
	case *VStruct:
		names, ftypes, model, _ := ex.structLayout(t)
		n := &VStruct{T: o.T, Names: o.Names}
		if model != nil {
			for i, mf := range model {
				n.Fields = append(n.Fields, ex.fresh(name+"."+mf.Name, o.Fields[i].(*Term).Sort))
			}
			st.assume(ex.modelInvariant(t, n))
			return n
		}
		for i := range names {
			n.Fields = append(n.Fields, ex.havocValue(st, ftypes[i], o.Fields[i], name+"."+names[i]))
		}
		return n
	case *VSlice:
		s := &VSlice{Ref: ex.fresh(name+".$ref", SInt), Off: ex.fresh(name+".$off", SInt), Len: ex.fresh(name+".$len", SInt), Cap: ex.fresh(name+".$cap", SInt), Elem: o.Elem}
		st.assume(sliceWF(s))
		st.assume(Lt(s.Ref, st.alloc))
		return s
	case *VMap:
		m := &VMap{Ref: ex.fresh(name+".$mref", SInt), T: o.T}
		st.assume(And(Ge(m.Ref, IntLit(0)), Lt(m.Ref, st.alloc)))
		return m
	case *VIface:
		tag := ex.fresh(name+".$tag", SInt)
		st.assume(Ge(tag, IntLit(0)))
		return &VIface{Tag: tag, Pay: ex.fresh(name+".$pay", SInt)}
	case *VTuple:
		tt := t.(*types.Tuple)
		n := &VTuple{}
		for i, x := range o.Vals {
			n.Vals = append(n.Vals, ex.havocValue(st, tt.At(i).Type(), x, fmt.Sprintf("%s.%d", name, i)))
		}
		return n
	case *VOpaque:
		return &VOpaque{T: o.T, ID: ex.fresh(name+".$opaque", SInt)}
	}
	if p, ok := old.(*VPtr); ok {
		// a pointer inside a library structure (e.g. the internals of a net.UDPConn) that the verified code
		// never dereferences: it keeps pointing to the same opaque object
		if n, isNamed := p.T.(*types.Named); isNamed && n.Obj().Pkg() != nil && !ex.inModule(n.Obj().Pkg()) {
			return p
		}
		if p.Obj == nil || !ex.pointsIntoModule(p.T) {
			return p
		}
	}
	ex.unsupported("cannot havoc a %T (variable %s assigned in a loop under invariant)", old, name)
	return nil
}

func (ex *Exec) modelInvariant(t types.Type, vs *VStruct) *Term {
	key := ""
	if n, ok := t.(*types.Named); ok {
		key = typeKey(n)
	}
	_, _, model, _ := ex.structLayout(t)
	if model == nil {
		return True
	}
	names := []string{}
	for _, m := range model {
		names = append(names, m.Name)
	}
	sig := strings.Join(names, ",")
	_ = key
	switch sig {
	case "abs,ns,loc":
		ns := vs.Fields[1].(*Term)
		return And(Le(IntLit(0), ns), Lt(ns, IntLit(1000000000)))
	case "kind,bits,hi,zone":
		k := vs.Fields[0].(*Term)
		bits := vs.Fields[1].(*Term)
		hi := vs.Fields[2].(*Term)
		zone := vs.Fields[3].(*Term)
		return And(Le(IntLit(0), k), Le(k, IntLit(2)),
			Le(IntLit(0), bits), Le(IntLit(0), hi), Le(IntLit(0), zone),
			Implies(Eq(k, IntLit(0)), And(Eq(bits, IntLit(0)), Eq(hi, IntLit(0)), Eq(zone, IntLit(0)))),
			Implies(Eq(k, IntLit(1)), And(Lt(bits, IntLit(1<<32)), Eq(hi, IntLit(0)), Eq(zone, IntLit(0)))))
	case "chars,len":
		return Le(IntLit(0), vs.Fields[1].(*Term))
	}
	return True
}

// assumeRowTyping: every element of the row of a symbolic slice is within the range of
// its Go element type (type safety of the heap), as a quantified fact so that it is
// available under binders.
func (ex *Exec) assumeRowTyping(st *State, s *VSlice) {
	leaves, err := ex.flattenType(s.Elem)
	if err != nil {
		return
	}
	for _, lf := range leaves {
		if lf.T == nil || lf.Sort != SInt {
			continue
		}
		key := heapKey(s.Elem, lf)
		h := st.heap(key, HeapOf(lf.Sort))
		i := Var("i!rt", SInt)
		st.assume(Forall([]*Term{i}, rangeFact(lf.T, Select(Select(h, s.Ref), i))))
	}
}

// pointsIntoModule: the pointee type is declared in the module under verification.
func (ex *Exec) pointsIntoModule(t types.Type) bool {
	if n, ok := t.(*types.Named); ok && n.Obj().Pkg() != nil {
		return ex.inModule(n.Obj().Pkg())
	}
	return true
}

// sortedKeys: the keys of a heap map in a fixed order (fresh names are numbered in the order they are made).
func sortedKeys(m map[string]*Term) []string {
	ks := make([]string, 0, len(m))
	for k := range m {
		ks = append(ks, k)
	}
	sort.Strings(ks)
	return ks
}
