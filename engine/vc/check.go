package vc

// Property-level driver: generate + discharge the obligations of a property's
// functions, apply pinning / vacuity guards / known findings, write evidence and
// replay files, print VIOLATION / KNOWN-FINDING lines.

import (
	"bufio"
	"crypto/sha256"
	"encoding/json"
	"fmt"
	"os"
	"os/exec"
	"path/filepath"
	"regexp"
	"sort"
	"strings"
	"time"
)

type ReplayRule struct {
	Match  string `json:"match"`  // substring of the obligation full name
	Driver string `json:"driver"` // driver template name (replay/drivers/<driver>_test.go.tmpl)
	Pkg    string `json:"pkg"`    // package directory relative to the repo
	Case   string `json:"case"`
}

type PropSpec struct {
	ID             string            `json:"id"`
	Level          string            `json:"level"`
	Functions      []string          `json:"functions"`
	Pinned         map[string]string `json:"pinned"` // obligation name (without module prefix) -> clause text that the contract must carry
	Required       []string          `json:"required"`
	Assumptions    []string          `json:"assumptions"`
	NotDecided     []string          `json:"not_decided"`
	Bounded        []string          `json:"bounded"`
	// BoundedChecks: bounded stand-ins (replay driver cases run on the tree as it is, in every tier) for functions the
	// verifier cannot reach; a witness is a violation, a pass is reported as bounded and never counted as proved
	BoundedChecks []BoundedCheck `json:"bounded_checks"`
	Replay         []ReplayRule      `json:"replay"`
	Explanation    string            `json:"explanation"`
	MinObligations int               `json:"min_obligations"`
	// Scope: regular expressions over the short obligation name; when non-empty only matching
	// obligations belong to this property (the others belong to other properties' checks)
	Scope        []string `json:"scope"`
	ScopeExclude []string `json:"scope_exclude"`
	// Sweep: package path suffixes whose every source function is analysed (zero-annotation
	// sweep for run-time checks); SweepExclude: function key -> reason it is not covered
	// ThoroughFunctions: verified only in the thorough tier (too slow for the quick tier)
	ThoroughFunctions []string `json:"thorough_functions"`
	// Conformance: bounded tests of assumed library behaviour run in the thorough tier (binaries in <verif>/bin)
	Conformance  []string          `json:"conformance"`
	Sweep        []string          `json:"sweep"`
	SweepExclude map[string]string `json:"sweep_exclude"`
	PinnedFile   string            `json:"pinned_file"`   // JSON map obligation -> clause text (in spec/)
	PinnedLabels []string          `json:"pinned_labels"` // labels (ensures:<label>) of pinned_file that this property pins
}

type BoundedCheck struct {
	ReplayRule
	Functions []string `json:"functions"` // the functions the driver case stands in for
	Bound     string   `json:"bound"`     // what is enumerated / sampled
}

type Finding struct {
	Kind       string // finding | fixed
	Property   string
	Obligation string
	When       string
	Witness    string
	What       string
	whenExpr   Expr
}

func LoadFindings(path string) ([]*Finding, error) {
	fh, err := os.Open(path)
	if err != nil {
		if os.IsNotExist(err) {
			return nil, nil
		}
		return nil, err
	}
	defer fh.Close()
	var out []*Finding
	sc := bufio.NewScanner(fh)
	re := regexp.MustCompile(`(\w+)=("([^"]*)"|\S+)`)
	for sc.Scan() {
		l := strings.TrimSpace(sc.Text())
		if l == "" || strings.HasPrefix(l, "#") {
			continue
		}
		var f Finding
		switch {
		case strings.HasPrefix(l, "finding:"):
			f.Kind = "finding"
		case strings.HasPrefix(l, "fixed:"):
			f.Kind = "fixed"
		default:
			continue
		}
		for _, m := range re.FindAllStringSubmatch(l, -1) {
			v := m[2]
			if m[3] != "" || strings.HasPrefix(v, `"`) {
				v = m[3]
			}
			switch m[1] {
			case "property":
				f.Property = v
			case "obligation":
				f.Obligation = v
			case "when":
				f.When = v
			case "witness":
				f.Witness = v
			case "what":
				f.What = v
			}
		}
		if f.When != "" {
			e, err := ParseExpr(f.When)
			if err != nil {
				return nil, fmt.Errorf("%s: %v", path, err)
			}
			f.whenExpr = e
		}
		out = append(out, &f)
	}
	return out, nil
}

type Evidence struct {
	PropertyID  string                 `json:"property_id"`
	Tier        string                 `json:"tier"`
	Seed        int                    `json:"seed"`
	Level       string                 `json:"level"`
	Coverage    map[string]interface{} `json:"coverage"`
	Assumptions []string               `json:"assumptions"`
	WallS       float64                `json:"wall_s"`
	Violations  int                    `json:"violations"`
}

type CheckOpts struct {
	VerifDir string
	Tier     string
	Seed     int
}

func normClause(s string) string { return strings.Join(strings.Fields(s), " ") }

func shortObl(name string) string { return strings.TrimPrefix(name, ModulePath+"/") }

// RunCheck returns the process exit code.
func (s *Session) RunCheck(ps *PropSpec, opts CheckOpts) int {
	start := time.Now()
	ex := s.Ex
	findings, err := LoadFindings(filepath.Join(opts.VerifDir, "known_findings.txt"))
	if err != nil {
		fmt.Println("error:", err)
		return 2
	}
	ex.Findings = map[string]*Finding{}
	for _, f := range findings {
		if f.Kind == "finding" && f.Property == ps.ID {
			ex.Findings[f.Obligation] = f
		}
	}
	var results []*FuncResult
	newFuncs := map[string]bool{}
	var notes []string
	notes = append(notes, ex.AliasNotes...)
	if opts.Tier == "thorough" {
		ps.Functions = append(ps.Functions, ps.ThoroughFunctions...)
		// larger generation budgets for the functions reserved to this tier
		ex.MaxHeapMB, ex.MaxObls, ex.GenBudgetS = 14000, 120000, 1200
	}
	if len(ps.Sweep) > 0 {
		have := map[string]bool{}
		for _, k := range ps.Functions {
			have[k] = true
		}
		// the sweep baseline (spec/sweep_baseline.json): the functions swept on the unchanged tree. A function
		// that is not in it is NEW code: an unexported new helper is not analysed on its own (with arbitrary
		// arguments it would be held to more than the property states - it is covered where it is inlined
		// into its callers), and a new function that leaves the verified subset is undecided, not a violation.
		baseline := map[string]bool{}
		if data, err := os.ReadFile(filepath.Join(opts.VerifDir, "spec", "sweep_baseline.json")); err == nil {
			all := map[string][]string{}
			if json.Unmarshal(data, &all) == nil {
				for _, k := range all[ps.ID] {
					baseline[k] = true
				}
			}
		}
		var swept []string
		for _, k := range ex.SweepKeys() {
			sk := shortObl(k)
			if have[sk] {
				continue
			}
			if _, skip := ps.SweepExclude[sk]; skip {
				continue
			}
			for _, p := range ps.Sweep {
				if strings.HasPrefix(sk, p+".") {
					if len(baseline) > 0 && !baseline[sk] && os.Getenv("GOVC_WRITE_SWEEP_BASELINE") == "" {
						newFuncs[sk] = true
						if !exportedKey(sk) {
							notes = append(notes, "new unexported function "+sk+" is not swept on its own (covered where it is executed in place in its callers)")
							break
						}
					}
					swept = append(swept, sk)
					ps.Functions = append(ps.Functions, sk)
					break
				}
			}
		}
		if os.Getenv("GOVC_WRITE_SWEEP_BASELINE") != "" {
			path := filepath.Join(opts.VerifDir, "spec", "sweep_baseline.json")
			all := map[string][]string{}
			if data, err := os.ReadFile(path); err == nil {
				json.Unmarshal(data, &all)
			}
			all[ps.ID] = swept
			data, _ := json.MarshalIndent(all, "", " ")
			os.WriteFile(path, data, 0o644)
		}
	}
	for _, k := range ps.Functions {
		key := k
		if !strings.HasPrefix(key, ModulePath) {
			key = ModulePath + "/" + key
		}
		results = append(results, s.Generate(key)...)
	}
	lemmaRes := s.LemmaResults()
	genTime := time.Since(start).Seconds()
	generated := map[string]int{}
	outOfScope := 0
	if len(ps.Scope) > 0 {
		var res []*regexp.Regexp
		for _, p := range ps.Scope {
			re, err := regexp.Compile(p)
			if err != nil {
				fmt.Println("error: scope:", err)
				return 2
			}
			res = append(res, re)
		}
		var excl []*regexp.Regexp
		for _, p := range ps.ScopeExclude {
			re, err := regexp.Compile(p)
			if err != nil {
				fmt.Println("error: scope_exclude:", err)
				return 2
			}
			excl = append(excl, re)
		}
		inScope := func(n string) bool {
			for _, re := range excl {
				if re.MatchString(n) {
					return false
				}
			}
			for _, re := range res {
				if re.MatchString(n) {
					return true
				}
			}
			return false
		}
		for _, r := range results {
			generated[r.Key] = len(r.Obligations)
			var keep []*Obligation
			for _, o := range r.Obligations {
				n := shortObl(o.FullName())
				if o.Cover {
					n = shortObl(o.Func) + "#ensures:" + strings.TrimPrefix(o.Name, "cover:")
				}
				if inScope(n) {
					keep = append(keep, o)
				} else if !o.Cover {
					outOfScope++
				}
			}
			r.Obligations = keep
		}
	}
	if ps.PinnedFile != "" {
		data, err := os.ReadFile(filepath.Join(opts.VerifDir, "spec", ps.PinnedFile))
		if err != nil {
			fmt.Println("error:", err)
			return 2
		}
		all := map[string]string{}
		if err := json.Unmarshal(data, &all); err != nil {
			fmt.Println("error:", ps.PinnedFile, err)
			return 2
		}
		if ps.Pinned == nil {
			ps.Pinned = map[string]string{}
		}
		for name, text := range all {
			for _, l := range ps.PinnedLabels {
				if strings.HasSuffix(name, "#ensures:"+l) || (l == "contract" && strings.HasSuffix(name, "#contract")) || (l == "macro" && strings.Contains(name, "#macro:")) {
					ps.Pinned[name] = text
				}
			}
		}
	}
	if len(lemmaRes.Obligations) > 0 {
		results = append(results, lemmaRes) // after scoping: spec lemmas belong to every property
	}
	s.DischargeAll(results, ps.ID)
	s.RetryWithFindings(results, ps.ID)
	sums := Summarize(results)
	covers := s.VacuityCheck(results, ps.ID)

	type viol struct {
		Name   string
		Reason string
		Failed []*Obligation
	}
	var viols []viol
	var engineProblems []string
	known := map[string]*Finding{}
	byName := map[string]*OblSummary{}
	for _, sm := range sums {
		byName[shortObl(sm.Name)] = sm
	}
	// 1. failed obligations
	for _, sm := range sums {
		if sm.Status == "unsat" {
			continue
		}
		if sm.Status == "known-finding" {
			known[shortObl(sm.Name)] = ex.Findings[shortObl(sm.Name)]
			continue
		}
		viols = append(viols, viol{Name: shortObl(sm.Name), Reason: "obligation not discharged (" + sm.Status + ")", Failed: sm.Failed})
	}
	// (thorough tier) solvers of different families must not contradict each other
	nConfirmed, nUnconfirmed := 0, 0
	for _, r := range results {
		for _, o := range r.Obligations {
			switch {
			case o.Status == "disagree":
				engineProblems = append(engineProblems, "solvers disagree on "+shortObl(o.FullName())+" ("+o.Solver+"): "+o.File)
			case o.Cross == "confirmed":
				nConfirmed++
			case o.Cross == "unconfirmed":
				nUnconfirmed++
			}
		}
	}
	// 2. functions that could not be processed
	for _, r := range results {
		if r.Error != "" {
			viols = append(viols, viol{Name: shortObl(r.Key) + "#contract", Reason: r.Error})
		}
		for _, u := range r.Unsupported {
			if newFuncs[shortObl(r.Key)] {
				notes = append(notes, "new function "+shortObl(r.Key)+" is outside the verified subset (undecided, not a violation): "+u)
				continue
			}
			viols = append(viols, viol{Name: shortObl(r.Key) + "#unsupported", Reason: "function left the verified subset: " + u})
		}
		if r.Error == "" && len(r.Unsupported) == 0 && r.Returns == 0 && len(r.Obligations) == 0 && generated[r.Key] == 0 {
			engineProblems = append(engineProblems, "no obligations generated for "+r.Key)
		}
	}
	// 3. pinned clauses and required obligations
	for name, text := range ps.Pinned {
		if strings.HasSuffix(name, "#contract") {
			key := strings.TrimSuffix(name, "#contract")
			ct := ex.Contracts[ModulePath+"/"+key]
			if ct == nil {
				viols = append(viols, viol{Name: name, Reason: "contract missing (deleted)"})
			} else if ct.SpecText() != normClause(text) {
				viols = append(viols, viol{Name: name, Reason: fmt.Sprintf("contract differs from the pinned property-level statement: have %q want %q", ct.SpecText(), normClause(text))})
			}
			continue
		}
		if i := strings.Index(name, "#macro:"); i >= 0 {
			got := MacroRaw[ModulePath+"/"+name[:i]][name[i+7:]]
			if got != normClause(text) {
				viols = append(viols, viol{Name: name, Reason: fmt.Sprintf("macro differs from the pinned property-level statement: have %q want %q", got, normClause(text))})
			}
			continue
		}
		sm, ok := byName[name]
		if !ok {
			viols = append(viols, viol{Name: name, Reason: "required obligation missing (contract clause deleted or function not analysed)"})
			continue
		}
		got := ""
		for _, r := range results {
			for _, o := range r.Obligations {
				if shortObl(o.FullName()) == name {
					got = o.Detail
				}
			}
		}
		if normClause(got) != normClause(text) {
			viols = append(viols, viol{Name: name, Reason: fmt.Sprintf("contract clause differs from the pinned property-level statement: have %q want %q", normClause(got), normClause(text))})
		}
		_ = sm
	}
	for _, name := range ps.Required {
		if _, ok := byName[name]; !ok {
			viols = append(viols, viol{Name: name, Reason: "required obligation missing"})
		}
	}

	// evidence numbers
	nObl, nDis, nInst, nKnown := 0, 0, 0, 0
	solverCount := map[string]int{}
	solverTime := 0.0
	classes := map[string]int{}
	for _, sm := range sums {
		nObl++
		nInst += sm.Instances
		if sm.Status == "unsat" {
			nDis++
		}
		if sm.Status == "known-finding" {
			// discharged under the negation of the finding's characteristic predicate
			nDis++
			nKnown++
		}
		classes[sm.Class]++
		for k, v := range sm.Solvers {
			solverCount[k] += v
		}
		solverTime += sm.Time
	}
	var fnInfo []map[string]interface{}
	trusted := map[string]bool{}
	libs := map[string]bool{}
	inlined := map[string]bool{}
	unmodelled := map[string]bool{}
	axioms := map[string]bool{}
	for _, r := range results {
		fnInfo = append(fnInfo, map[string]interface{}{"function": shortObl(r.Key), "pos": r.Pos, "paths": r.Paths, "returns": r.Returns,
			"query_instances": len(r.Obligations), "contracts_used": shortAll(r.ContractsUsed), "inlined": shortAll(r.Inlined)})
		for _, t := range r.TrustedUsed {
			trusted[shortObl(t)] = true
		}
		for _, l := range r.LibCalls {
			libs[l] = true
		}
		for _, l := range r.Inlined {
			inlined[shortObl(l)] = true
		}
		for _, l := range r.Unmodelled {
			unmodelled[l] = true
		}
		for _, o := range r.Obligations {
			for _, a := range o.Axioms {
				axioms[a] = true
			}
		}
	}
	var samples []interface{}
	for i, sm := range sums {
		if i%((len(sums)/6)+1) == 0 && len(samples) < 8 {
			sample := map[string]interface{}{"obligation": shortObl(sm.Name), "class": sm.Class, "instances": sm.Instances, "status": sm.Status, "solvers": sm.Solvers}
			for _, r := range results {
				for _, o := range r.Obligations {
					if o.FullName() == sm.Name && sample["goal"] == nil && o.Goal != nil {
						g := o.Goal.String()
						if len(g) > 600 {
							g = g[:600] + "..."
						}
						sample["goal"] = g
						sample["clause"] = o.Detail
						sample["smt2"] = o.File
					}
				}
			}
			samples = append(samples, sample)
		}
	}
	trustedBase := []string{
		"golang.org/x/tools v0.29.0 go/ssa builder (NaiveForm) and the Go compiler agree on the semantics of the source",
		"govc VC generator (this engine): its SSA semantics, memory model and simplifier",
		"SMT solvers z3 4.8.12 / z3 5.1.0 / cvc5 1.0.3 (an 'unsat' answer is trusted)",
		"int/int64/uint64 are mathematical integers guarded by no-overflow obligations; uint8/16/32 arithmetic wraps; no object larger than 2^48 bytes",
	}
	for _, l := range sortedSet(libs) {
		trustedBase = append(trustedBase, "assumed library contract: "+l)
	}
	for _, l := range sortedSet(axioms) {
		trustedBase = append(trustedBase, "assumed axiom: "+l)
	}
	for _, l := range sortedSet(trusted) {
		trustedBase = append(trustedBase, "trusted (unverified) contract: "+l)
	}
	for _, l := range sortedSet(unmodelled) {
		trustedBase = append(trustedBase, "unmodelled callee, result havocked (assumed not to panic): "+l)
	}
	cov := map[string]interface{}{
		"obligations":                    nObl,
		"discharged":                     nDis,
		"query_instances":                nInst,
		"checker_cmd":                    fmt.Sprintf("/verif/check %s %s", ps.ID, opts.Tier),
		"trusted_base":                   trustedBase,
		"samples":                        samples,
		"functions":                      fnInfo,
		"obligation_classes":             classes,
		"discharged_by":                  solverCount,
		"solver_time_s":                  round2(solverTime),
		"generation_time_s":              round2(genTime),
		"load_time_s":                    round2(s.LoadTime),
		"inlined_functions":              sortedSet(inlined),
		"not_decided":                    ps.NotDecided,
		"bounded_parts":                  ps.Bounded,
		"explanation":                    ps.Explanation,
		"contract_files":                 s.ContractFiles,
		"per_obligation_timeout_s":       s.TimeoutS,
		"scope":                          ps.Scope,
		"out_of_scope_query_instances":   outOfScope,
		"pinned_clauses":                 len(ps.Pinned),
		"thorough_only_functions":        ps.ThoroughFunctions,
		"slow_obligations":               slowList(sums, float64(s.TimeoutS)*0.4),
		"slowest_obligations":            slowest(sums, 5),
		"cross_checked_by_second_solver": map[string]int{"confirmed": nConfirmed, "first_solver_only": nUnconfirmed},
		"discharged_only_under_known_finding_exclusion": nKnown,
		"sweep_packages":            ps.Sweep,
		"sweep_not_covered":         ps.SweepExclude,
		"new_functions_not_decided": notes,
	}
	nReach, nMaybe := 0, 0
	var vacuous []string
	for _, c := range covers {
		switch c.Status {
		case "reachable":
			nReach++
		case "possibly-reachable":
			nMaybe++
		default:
			vacuous = append(vacuous, shortObl(c.Func)+"#ensures:"+c.Label)
		}
	}
	cov["vacuity_guard"] = map[string]interface{}{"clauses": len(covers), "antecedent_reachable_sat": nReach, "antecedent_not_refuted_unknown": nMaybe, "vacuous": vacuous,
		"rule": "for every ensures clause A ==> B some return path must be consistent with A (query path && A not unsat)"}
	for _, v := range vacuous {
		engineProblems = append(engineProblems, "vacuous clause (antecedent unreachable on every path): "+v)
	}
	var knownLines []string
	for name, f := range known {
		line := fmt.Sprintf("KNOWN-FINDING: property=%s obligation=%s %s (witness: %s)", ps.ID, name, f.What, f.Witness)
		knownLines = append(knownLines, line)
	}
	sort.Strings(knownLines)
	cov["known_findings"] = knownLines
	if len(engineProblems) > 0 {
		cov["engine_problems"] = engineProblems
	}

	// replay files and VIOLATION lines
	outDir := filepath.Join(opts.VerifDir, "replay", "out", ps.ID)
	os.RemoveAll(outDir)
	exit := 0
	var violLines []string
	var boundedFailed []string
	replayCache := map[string][3]string{} // one run of a driver case per check
	for _, v := range viols {
		os.MkdirAll(outDir, 0o755)
		rp := map[string]interface{}{"property": ps.ID, "obligation": v.Name, "reason": v.Reason, "tier": opts.Tier}
		var solverOut []map[string]interface{}
		for i, o := range v.Failed {
			if i >= 3 {
				break
			}
			so := map[string]interface{}{"smt2": o.File, "status": o.Status, "pos": o.Pos, "clause": o.Detail, "via": o.Via}
			var outs []map[string]interface{}
			for _, r := range o.AllRes {
				txt := r.Output
				if len(txt) > 400 {
					txt = txt[:400]
				}
				outs = append(outs, map[string]interface{}{"solver": r.Solver, "status": r.Status, "time_s": round2(r.Time), "output": txt})
			}
			so["solver_results"] = outs
			if o.Status == "sat" && o.File != "" && i == 0 {
				so["model"] = modelOf(o.File)
			}
			solverOut = append(solverOut, so)
		}
		rp["failed_instances"] = solverOut
		confirmed := false
		if rule := matchReplay(ps, v.Name); rule != nil {
			ck := rule.Driver + ":" + rule.Case
			if _, done := replayCache[ck]; !done {
				w, c, l := s.runReplayDriver(opts, rule, "")
				replayCache[ck] = [3]string{w, c, l}
			}
			wit, cmd, log := replayCache[ck][0], replayCache[ck][1], replayCache[ck][2]
			rp["replay_driver"] = rule.Driver + ":" + rule.Case
			rp["go_test_cmd"] = cmd
			rp["driver_output"] = log
			if wit != "" {
				confirmed = true
				rp["failing_input"] = wit
			}
		}
		rp["confirmed_on_real_code"] = confirmed
		file := filepath.Join(outDir, safeFile(v.Name)+".json")
		data, _ := json.MarshalIndent(rp, "", " ")
		os.WriteFile(file, data, 0o644)
		line := fmt.Sprintf("VIOLATION property=%s replay=%s", ps.ID, file)
		if !confirmed {
			line += " no-failing-input-found"
		}
		violLines = append(violLines, line)
		exit = 1
	}
	// bounded stand-ins: driver cases run on the tree as it is in every tier; a witness is a violation of its own
	var bounded []map[string]interface{}
	for i := range ps.BoundedChecks {
		bc := &ps.BoundedChecks[i]
		t0 := time.Now()
		wit, cmd, log := s.runReplayDriver(opts, &bc.ReplayRule, "")
		name := "bounded:" + bc.Driver + ":" + bc.Case
		ent := map[string]interface{}{"check": name, "functions": bc.Functions, "bound": bc.Bound, "time_s": round2(time.Since(t0).Seconds()),
			"kind": "bounded stand-in: the real functions run on an enumerated / sampled input set; NOT counted as proved"}
		switch {
		case wit != "":
			ent["result"] = "WITNESS: " + wit
			os.MkdirAll(outDir, 0o755)
			file := filepath.Join(outDir, safeFile(name)+".json")
			rp := map[string]interface{}{"property": ps.ID, "obligation": name, "reason": "the bounded stand-in finds a failing input on the real code", "tier": opts.Tier,
				"failing_input": wit, "go_test_cmd": cmd, "driver_output": log, "confirmed_on_real_code": true, "functions": bc.Functions}
			data, _ := json.MarshalIndent(rp, "", " ")
			os.WriteFile(file, data, 0o644)
			violLines = append(violLines, fmt.Sprintf("VIOLATION property=%s replay=%s", ps.ID, file))
			boundedFailed = append(boundedFailed, name+": "+wit)
			exit = 1
		case !strings.Contains(log, "NOWITNESS"):
			ent["result"] = "driver did not run to completion"
			engineProblems = append(engineProblems, "bounded stand-in "+name+" did not run to completion: "+lastLines(log, 3))
		default:
			ent["result"] = "no witness"
		}
		bounded = append(bounded, ent)
	}
	if bounded != nil {
		cov["bounded_checks"] = bounded
	}
	// thorough tier: every replay driver of the property is also run on the tree as it is (bounded sampling of
	// the real functions against the executable copies of the clauses). A witness found while every obligation
	// is discharged is a discrepancy between proof and code (or a driver bug) and is reported as an engine
	// problem - except for driver cases that belong to an obligation listed as a known finding.
	if opts.Tier == "thorough" && len(viols) == 0 {
		knownCases := map[string]bool{}
		for name := range known {
			if rule := matchReplay(ps, name); rule != nil {
				knownCases[rule.Driver+":"+rule.Case] = true
			}
		}
		var selftest []map[string]interface{}
		seenCase := map[string]bool{}
		for i := range ps.Replay {
			rule := &ps.Replay[i]
			ck := rule.Driver + ":" + rule.Case
			if seenCase[ck] {
				continue
			}
			seenCase[ck] = true
			wit, _, _ := s.runReplayDriver(opts, rule, "")
			res := "no witness"
			if wit != "" {
				res = "WITNESS: " + wit
				if knownCases[ck] {
					res += " (known finding)"
				} else {
					engineProblems = append(engineProblems, "replay driver "+ck+" finds a failing input although every obligation is discharged: "+wit)
				}
			}
			selftest = append(selftest, map[string]interface{}{"driver": ck, "result": res, "kind": "bounded sampling of the real code; not counted as proved"})
		}
		cov["replay_drivers_on_this_tree"] = selftest
	}
	if opts.Tier == "thorough" {
		var conf []map[string]interface{}
		for _, c := range ps.Conformance {
			out, err := exec.Command(filepath.Join(opts.VerifDir, "bin", c)).CombinedOutput()
			txt := strings.TrimSpace(string(out))
			if len(txt) > 1500 {
				txt = txt[len(txt)-1500:]
			}
			conf = append(conf, map[string]interface{}{"test": c, "output": txt, "ok": err == nil, "kind": "bounded conformance test of an assumed library model against the real library; not a proof"})
			if err != nil {
				engineProblems = append(engineProblems, "library conformance test "+c+" failed: "+txt)
			}
		}
		if conf != nil {
			cov["library_conformance"] = conf
		}
	}
	ev := &Evidence{PropertyID: ps.ID, Tier: opts.Tier, Seed: opts.Seed, Level: ps.Level, Coverage: cov,
		Assumptions: append([]string(nil), ps.Assumptions...), WallS: round2(time.Since(start).Seconds() + s.LoadTime), Violations: len(viols) + len(boundedFailed)}
	evDir := filepath.Join(opts.VerifDir, "evidence")
	os.MkdirAll(evDir, 0o755)
	data, _ := json.MarshalIndent(ev, "", " ")
	os.WriteFile(filepath.Join(evDir, ps.ID+".json"), data, 0o644)

	fmt.Printf("%s %s: %d obligations (%d query instances), %d discharged, %d functions, %.1fs\n", ps.ID, opts.Tier, nObl, nInst, nDis, len(results), time.Since(start).Seconds())
	for _, l := range knownLines {
		fmt.Println(l)
	}
	var slow []string
	for _, sm := range sums {
		if sm.MaxTime > float64(s.TimeoutS)*0.4 {
			slow = append(slow, fmt.Sprintf("%s (%.1fs)", shortObl(sm.Name), sm.MaxTime))
		}
	}
	if len(slow) > 0 {
		fmt.Printf("note: %d obligation(s) needed more than 40%% of the per-query time limit: %s\n", len(slow), strings.Join(slow, ", "))
	}
	for _, n := range notes {
		fmt.Println("note:", n)
	}
	for _, p := range engineProblems {
		fmt.Println("ENGINE-PROBLEM:", p)
		exit = 2
	}
	for _, v := range viols {
		fmt.Printf("  failed: %s: %s\n", v.Name, v.Reason)
	}
	for _, b := range boundedFailed {
		fmt.Printf("  failed: %s\n", b)
	}
	for _, l := range violLines {
		fmt.Println(l)
	}
	if len(viols) > 0 || len(boundedFailed) > 0 {
		return 1
	}
	return exit
}

func lastLines(s string, n int) string {
	ls := strings.Split(strings.TrimSpace(s), "\n")
	if len(ls) > n {
		ls = ls[len(ls)-n:]
	}
	return strings.Join(ls, " | ")
}

func shortAll(xs []string) []string {
	out := []string{}
	for _, x := range xs {
		out = append(out, shortObl(x))
	}
	return out
}

func round2(f float64) float64 { return float64(int(f*100+0.5)) / 100 }

func safeFile(n string) string {
	s := strings.Map(func(r rune) rune {
		if r >= 'a' && r <= 'z' || r >= 'A' && r <= 'Z' || r >= '0' && r <= '9' || r == '.' || r == '-' || r == '_' {
			return r
		}
		return '_'
	}, n)
	if len(s) > 120 {
		h := sha256.Sum256([]byte(n))
		s = s[:100] + fmt.Sprintf("_%x", h[:6])
	}
	return s
}

func matchReplay(ps *PropSpec, name string) *ReplayRule {
	for i := range ps.Replay {
		if strings.Contains(name, ps.Replay[i].Match) {
			return &ps.Replay[i]
		}
	}
	return nil
}

// modelOf re-runs z3 on a satisfiable query to obtain the model text (truncated).
func modelOf(file string) string {
	data, err := os.ReadFile(file)
	if err != nil {
		return ""
	}
	tmp := file + ".model.smt2"
	os.WriteFile(tmp, []byte("(set-option :produce-models true)\n"+string(data)+"(get-model)\n"), 0o644)
	defer os.Remove(tmp)
	out, _ := exec.Command("z3", "-T:5", tmp).CombinedOutput()
	s := string(out)
	if len(s) > 6000 {
		s = s[:6000] + "\n...(truncated)"
	}
	return s
}

// runReplayDriver injects an in-package test through `go test -overlay` and runs it against the
// real code. Returns the failing input found (or ""), the command line and the driver output.
func (s *Session) runReplayDriver(opts CheckOpts, rule *ReplayRule, witness string) (string, string, string) {
	tmpl := filepath.Join(opts.VerifDir, "replay", "drivers", rule.Driver+"_test.go.tmpl")
	if _, err := os.Stat(tmpl); err != nil {
		return "", "", "no driver template " + tmpl
	}
	work := filepath.Join(s.WorkDir, "replay")
	os.MkdirAll(work, 0o755)
	target := filepath.Join(s.RepoDir, rule.Pkg, "verif_replay_"+rule.Driver+"_test.go")
	ov := map[string]map[string]string{"Replace": {target: tmpl}}
	ovFile := filepath.Join(work, "overlay_"+rule.Driver+".json")
	data, _ := json.Marshal(ov)
	os.WriteFile(ovFile, data, 0o644)
	args := []string{"test", "-overlay", ovFile, "-vet=off", "-count=1", "-v", "-timeout", "120s", "-run", "^TestVerifReplay$", "./" + rule.Pkg}
	cmd := exec.Command("go", args...)
	cmd.Dir = s.RepoDir
	cmd.Env = append(os.Environ(), "GOFLAGS=-mod=mod", "GOPROXY=off", "GOSUMDB=off", "GOTOOLCHAIN=local",
		"VERIF_CASE="+rule.Case, fmt.Sprintf("VERIF_SEED=%d", opts.Seed), "VERIF_WITNESS="+witness, "VERIF_TIER="+opts.Tier)
	out, _ := cmd.CombinedOutput()
	log := string(out)
	wit := ""
	for _, l := range strings.Split(log, "\n") {
		l = strings.TrimSpace(l)
		if strings.HasPrefix(l, "WITNESS ") {
			wit = strings.TrimPrefix(l, "WITNESS ")
			break
		}
	}
	if len(log) > 3000 {
		log = log[:3000] + "\n...(truncated)"
	}
	cmdline := fmt.Sprintf("cd %s && VERIF_CASE=%s VERIF_SEED=%d VERIF_WITNESS=%q go test -overlay %s -vet=off -count=1 -v -timeout 120s -run '^TestVerifReplay$' ./%s",
		s.RepoDir, rule.Case, opts.Seed, witness, ovFile, rule.Pkg)
	return wit, cmdline, log
}

// RetryWithFindings: an obligation that failed and is listed as a known finding is
// re-proved under the negation of the finding's characteristic predicate.
func (s *Session) RetryWithFindings(results []*FuncResult, sub string) {
	var retry []*Obligation
	for _, r := range results {
		for _, o := range r.Obligations {
			if o.Status != "unsat" && o.FindingHyp != nil && !o.Cover {
				o.Hyps = append(o.Hyps, o.FindingHyp)
				o.Status = ""
				o.retried = true
				retry = append(retry, o)
			}
		}
	}
	if len(retry) == 0 {
		return
	}
	s.DischargeAll(results, sub+"_kf")
	for _, o := range retry {
		if o.Status == "unsat" {
			o.Status = "known-finding"
		}
	}
}

func LoadPropSpecs(path string) (map[string]*PropSpec, error) {
	data, err := os.ReadFile(path)
	if err != nil {
		return nil, err
	}
	var list []*PropSpec
	if err := json.Unmarshal(data, &list); err != nil {
		return nil, err
	}
	out := map[string]*PropSpec{}
	for _, p := range list {
		out[p.ID] = p
	}
	return out, nil
}

func slowList(sums []*OblSummary, limit float64) []string {
	out := []string{}
	for _, sm := range sums {
		if sm.MaxTime > limit {
			out = append(out, fmt.Sprintf("%s (%.1fs)", shortObl(sm.Name), sm.MaxTime))
		}
	}
	return out
}

// exportedKey: the function (and, for a method, its receiver type) is exported.
func exportedKey(sk string) bool {
	name := sk[strings.LastIndex(sk, ".")+1:]
	if name == "" || !(name[0] >= 'A' && name[0] <= 'Z') {
		return false
	}
	if i := strings.Index(sk, "("); i >= 0 {
		recv := strings.TrimLeft(sk[i+1:], "*")
		return recv != "" && recv[0] >= 'A' && recv[0] <= 'Z'
	}
	return true
}

// slowest: the n obligations whose slowest query instance took longest (headroom against the per-query limit).
func slowest(sums []*OblSummary, n int) []string {
	cp := append([]*OblSummary(nil), sums...)
	sort.Slice(cp, func(i, j int) bool { return cp[i].MaxTime > cp[j].MaxTime })
	out := []string{}
	for i := 0; i < n && i < len(cp); i++ {
		out = append(out, fmt.Sprintf("%s (%.2fs)", shortObl(cp[i].Name), cp[i].MaxTime))
	}
	return out
}
