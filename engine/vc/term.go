// Package vc: SMT term layer with light simplification.
package vc

import (
	"fmt"
	"math/big"
	"sort"
	"strings"
)

type Sort string

const (
	SInt   Sort = "Int"
	SBool  Sort = "Bool"
	SStr   Sort = "Str" // uninterpreted sort of Go strings (slen / sat)
	SArr   Sort = "(Array Int Int)"
	SArrB  Sort = "(Array Int Bool)"
	SArrS  Sort = "(Array Int Str)"
	SHInt  Sort = "(Array Int (Array Int Int))"
	SHBool Sort = "(Array Int (Array Int Bool))"
	SHStr  Sort = "(Array Int (Array Int Str))"
)

func ArrayOf(elem Sort) Sort { return Sort("(Array Int " + string(elem) + ")") }
func HeapOf(elem Sort) Sort  { return ArrayOf(ArrayOf(elem)) }

// ElemSort of an array sort "(Array Int X)" is X.
func (s Sort) Elem() Sort {
	str := string(s)
	if strings.HasPrefix(str, "(Array Int ") && strings.HasSuffix(str, ")") {
		return Sort(str[len("(Array Int ") : len(str)-1])
	}
	panic("not an array sort: " + str)
}

// Term is an immutable SMT term.
type Term struct {
	Op   string // "lit", "var", "app" or a builtin operator name
	Name string // for var / app: symbol name
	Args []*Term
	Sort Sort
	Int  *big.Int // for integer literals
	B    bool     // for boolean literals
	// binder info for quantifiers
	Bound []*Term
	str   string
	key   Key
	keyed bool
	size  int
}

// Key: 128-bit structural hash of a term. Two terms with equal keys are treated as equal.
type Key [2]uint64

func mix(h uint64, v uint64) uint64 {
	h ^= v + 0x9e3779b97f4a7c15 + (h << 6) + (h >> 2)
	h *= 0xff51afd7ed558ccd
	h ^= h >> 33
	return h
}

func hashStr(seed uint64, s string) uint64 {
	h := seed
	for i := 0; i < len(s); i++ {
		h ^= uint64(s[i])
		h *= 1099511628211
	}
	return h
}

// Size: number of nodes of the term printed as a tree (saturating).
func (t *Term) Size() int {
	if t.size > 0 {
		return t.size
	}
	n := 1
	for _, a := range t.Args {
		n += a.Size()
		if n > 1<<40 {
			n = 1 << 40
			break
		}
	}
	t.size = n
	return n
}

func (t *Term) Key() Key {
	if t.keyed {
		return t.key
	}
	a := hashStr(14695981039346656037, t.Op)
	b := hashStr(0x84222325cbf29ce4, t.Op)
	a = hashStr(a, t.Name)
	b = hashStr(b^0x5555, t.Name)
	a = hashStr(a, string(t.Sort))
	b = hashStr(b, string(t.Sort))
	if t.Op == "lit" {
		if t.Sort == SBool {
			if t.B {
				a, b = mix(a, 1), mix(b, 7)
			} else {
				a, b = mix(a, 2), mix(b, 11)
			}
		} else {
			s := t.Int.String()
			a, b = hashStr(a, s), hashStr(b^0x1234, s)
		}
	}
	for _, bv := range t.Bound {
		k := bv.Key()
		a, b = mix(a, k[0]), mix(b, k[1])
	}
	for i, x := range t.Args {
		k := x.Key()
		a = mix(a, k[0]+uint64(i)*0x9e37)
		b = mix(b, k[1]^uint64(i+1)*0x85ebca6b)
	}
	t.key = Key{a, b}
	t.keyed = true
	return t.key
}

func (t *Term) IsIntLit() bool  { return t.Op == "lit" && t.Sort == SInt }
func (t *Term) IsBoolLit() bool { return t.Op == "lit" && t.Sort == SBool }
func (t *Term) IsTrue() bool    { return t.IsBoolLit() && t.B }
func (t *Term) IsFalse() bool   { return t.IsBoolLit() && !t.B }

func (t *Term) Int64() (int64, bool) {
	if t.IsIntLit() && t.Int.IsInt64() {
		return t.Int.Int64(), true
	}
	return 0, false
}

var (
	True  = &Term{Op: "lit", Sort: SBool, B: true}
	False = &Term{Op: "lit", Sort: SBool, B: false}
)

func IntLit(v int64) *Term { return &Term{Op: "lit", Sort: SInt, Int: big.NewInt(v)} }
func BigLit(v *big.Int) *Term {
	return &Term{Op: "lit", Sort: SInt, Int: new(big.Int).Set(v)}
}
func BoolLit(b bool) *Term {
	if b {
		return True
	}
	return False
}

// Var is a free constant symbol. Symbols are declared by the emitter from their use.
func Var(name string, s Sort) *Term { return &Term{Op: "var", Name: name, Sort: s} }

// App is an application of an uninterpreted (or defined) function symbol.
func App(name string, s Sort, args ...*Term) *Term {
	return &Term{Op: "app", Name: name, Sort: s, Args: args}
}

func mk(op string, s Sort, args ...*Term) *Term { return &Term{Op: op, Sort: s, Args: args} }

func (t *Term) String() string {
	if t.str != "" {
		return t.str
	}
	var s string
	switch t.Op {
	case "lit":
		if t.Sort == SBool {
			if t.B {
				s = "true"
			} else {
				s = "false"
			}
		} else {
			if t.Int.Sign() < 0 {
				s = "(- " + new(big.Int).Neg(t.Int).String() + ")"
			} else {
				s = t.Int.String()
			}
		}
	case "var":
		s = quoteSym(t.Name)
	case "app":
		if len(t.Args) == 0 {
			s = quoteSym(t.Name)
		} else {
			parts := make([]string, 0, len(t.Args)+1)
			parts = append(parts, quoteSym(t.Name))
			for _, a := range t.Args {
				parts = append(parts, a.String())
			}
			s = "(" + strings.Join(parts, " ") + ")"
		}
	case "forall", "exists":
		bs := []string{}
		for _, b := range t.Bound {
			bs = append(bs, "("+quoteSym(b.Name)+" "+string(b.Sort)+")")
		}
		s = "(" + t.Op + " (" + strings.Join(bs, " ") + ") " + t.Args[0].String() + ")"
	case "constarr":
		s = "((as const " + string(t.Sort) + ") " + t.Args[0].String() + ")"
	default:
		parts := make([]string, 0, len(t.Args)+1)
		parts = append(parts, t.Op)
		for _, a := range t.Args {
			parts = append(parts, a.String())
		}
		s = "(" + strings.Join(parts, " ") + ")"
	}
	t.str = s
	return s
}

func quoteSym(n string) string {
	for _, c := range n {
		if !(c >= 'a' && c <= 'z' || c >= 'A' && c <= 'Z' || c >= '0' && c <= '9' || strings.ContainsRune("_.$!@#%^&*-+<>=/?~", c)) {
			return "|" + n + "|"
		}
	}
	if n == "" || (n[0] >= '0' && n[0] <= '9') {
		return "|" + n + "|"
	}
	return n
}

func Equal(a, b *Term) bool { return a == b || a.Key() == b.Key() }

// ---------- boolean connectives ----------

func Not(a *Term) *Term {
	if a.IsBoolLit() {
		return BoolLit(!a.B)
	}
	if a.Op == "not" {
		return a.Args[0]
	}
	return mk("not", SBool, a)
}

func And(args ...*Term) *Term {
	out := []*Term{}
	seen := map[Key]bool{}
	for _, a := range args {
		if a == nil || a.IsTrue() {
			continue
		}
		if a.IsFalse() {
			return False
		}
		if a.Op == "and" {
			for _, x := range a.Args {
				if !seen[x.Key()] {
					seen[x.Key()] = true
					out = append(out, x)
				}
			}
			continue
		}
		if !seen[a.Key()] {
			seen[a.Key()] = true
			out = append(out, a)
		}
	}
	if len(out) == 0 {
		return True
	}
	if len(out) == 1 {
		return out[0]
	}
	return mk("and", SBool, out...)
}

func Or(args ...*Term) *Term {
	out := []*Term{}
	seen := map[Key]bool{}
	for _, a := range args {
		if a == nil || a.IsFalse() {
			continue
		}
		if a.IsTrue() {
			return True
		}
		if a.Op == "or" {
			for _, x := range a.Args {
				if !seen[x.Key()] {
					seen[x.Key()] = true
					out = append(out, x)
				}
			}
			continue
		}
		if !seen[a.Key()] {
			seen[a.Key()] = true
			out = append(out, a)
		}
	}
	if len(out) == 0 {
		return False
	}
	if len(out) == 1 {
		return out[0]
	}
	return mk("or", SBool, out...)
}

func Implies(a, b *Term) *Term {
	if a.IsTrue() {
		return b
	}
	if a.IsFalse() || b.IsTrue() {
		return True
	}
	if b.IsFalse() {
		return Not(a)
	}
	return mk("=>", SBool, a, b)
}

func Iff(a, b *Term) *Term {
	if a.IsBoolLit() {
		if a.B {
			return b
		}
		return Not(b)
	}
	if b.IsBoolLit() {
		if b.B {
			return a
		}
		return Not(a)
	}
	if Equal(a, b) {
		return True
	}
	return mk("=", SBool, a, b)
}

func Ite(c, a, b *Term) *Term {
	if c.IsTrue() {
		return a
	}
	if c.IsFalse() {
		return b
	}
	if Equal(a, b) {
		return a
	}
	if a.Sort == SBool {
		if a.IsTrue() && b.IsFalse() {
			return c
		}
		if a.IsFalse() && b.IsTrue() {
			return Not(c)
		}
	}
	return mk("ite", a.Sort, c, a, b)
}

func Eq(a, b *Term) *Term {
	if a.Sort != b.Sort {
		panic(fmt.Sprintf("Eq: sort mismatch %s:%s vs %s:%s", a, a.Sort, b, b.Sort))
	}
	if a.Sort == SBool {
		return Iff(a, b)
	}
	if a.IsIntLit() && b.IsIntLit() {
		return BoolLit(a.Int.Cmp(b.Int) == 0)
	}
	if Equal(a, b) {
		return True
	}
	// x + c1 == c2
	if b.IsIntLit() && a.Op == "+" && len(a.Args) == 2 && a.Args[1].IsIntLit() {
		return Eq(a.Args[0], BigLit(new(big.Int).Sub(b.Int, a.Args[1].Int)))
	}
	// ite(c, k1, k2) == k  with literals
	if b.IsIntLit() && a.Op == "ite" && a.Args[1].IsIntLit() && a.Args[2].IsIntLit() {
		return Ite(a.Args[0], Eq(a.Args[1], b), Eq(a.Args[2], b))
	}
	if a.IsIntLit() && !b.IsIntLit() {
		return Eq(b, a)
	}
	return mk("=", SBool, a, b)
}

func Neq(a, b *Term) *Term { return Not(Eq(a, b)) }

func cmp(op string, a, b *Term) *Term {
	if a.IsIntLit() && b.IsIntLit() {
		c := a.Int.Cmp(b.Int)
		switch op {
		case "<":
			return BoolLit(c < 0)
		case "<=":
			return BoolLit(c <= 0)
		case ">":
			return BoolLit(c > 0)
		case ">=":
			return BoolLit(c >= 0)
		}
	}
	if Equal(a, b) {
		return BoolLit(op == "<=" || op == ">=")
	}
	// (x + c1) op c2  ->  x op (c2-c1)
	if b.IsIntLit() && a.Op == "+" && len(a.Args) == 2 && a.Args[1].IsIntLit() {
		return cmp(op, a.Args[0], BigLit(new(big.Int).Sub(b.Int, a.Args[1].Int)))
	}
	return mk(op, SBool, a, b)
}

func Lt(a, b *Term) *Term { return cmp("<", a, b) }
func Le(a, b *Term) *Term { return cmp("<=", a, b) }
func Gt(a, b *Term) *Term { return cmp(">", a, b) }
func Ge(a, b *Term) *Term { return cmp(">=", a, b) }

// InRange: lo <= x < hi
func InRange(x *Term, lo, hi int64) *Term { return And(Le(IntLit(lo), x), Lt(x, IntLit(hi))) }

// ---------- arithmetic ----------

func Add(a, b *Term) *Term {
	if a.IsIntLit() && b.IsIntLit() {
		return BigLit(new(big.Int).Add(a.Int, b.Int))
	}
	if a.IsIntLit() && a.Int.Sign() == 0 {
		return b
	}
	if b.IsIntLit() && b.Int.Sign() == 0 {
		return a
	}
	if a.IsIntLit() {
		a, b = b, a
	}
	// (x + c1) + c2
	if b.IsIntLit() && a.Op == "+" && len(a.Args) == 2 && a.Args[1].IsIntLit() {
		return Add(a.Args[0], BigLit(new(big.Int).Add(a.Args[1].Int, b.Int)))
	}
	return mk("+", SInt, a, b)
}

func Neg(a *Term) *Term {
	if a.IsIntLit() {
		return BigLit(new(big.Int).Neg(a.Int))
	}
	return mk("-", SInt, a)
}

func Sub(a, b *Term) *Term {
	if b.IsIntLit() {
		return Add(a, BigLit(new(big.Int).Neg(b.Int)))
	}
	if Equal(a, b) {
		return IntLit(0)
	}
	return mk("-", SInt, a, b)
}

func Mul(a, b *Term) *Term {
	if a.IsIntLit() && b.IsIntLit() {
		return BigLit(new(big.Int).Mul(a.Int, b.Int))
	}
	if a.IsIntLit() {
		a, b = b, a
	}
	if b.IsIntLit() {
		if b.Int.Sign() == 0 {
			return IntLit(0)
		}
		if b.Int.Cmp(big.NewInt(1)) == 0 {
			return a
		}
	}
	return mk("*", SInt, a, b)
}

// EDiv / EMod are SMT-LIB (euclidean) div and mod.
func EDiv(a, b *Term) *Term {
	if a.IsIntLit() && b.IsIntLit() && b.Int.Sign() != 0 {
		q, _ := new(big.Int).DivMod(a.Int, b.Int, new(big.Int))
		return BigLit(q)
	}
	if b.IsIntLit() && b.Int.Cmp(big.NewInt(1)) == 0 {
		return a
	}
	return mk("div", SInt, a, b)
}

func EMod(a, b *Term) *Term {
	if a.IsIntLit() && b.IsIntLit() && b.Int.Sign() != 0 {
		_, m := new(big.Int).DivMod(a.Int, b.Int, new(big.Int))
		return BigLit(m)
	}
	// (x mod m) mod m
	if a.Op == "mod" && Equal(a.Args[1], b) {
		return a
	}
	return mk("mod", SInt, a, b)
}

// ---------- arrays ----------

func Select(a, i *Term) *Term {
	for {
		if a.Op == "store" {
			idx := a.Args[1]
			if Equal(idx, i) {
				return a.Args[2]
			}
			if distinctTerms(idx, i) {
				a = a.Args[0]
				continue
			}
		}
		if a.Op == "constarr" {
			return a.Args[0]
		}
		break
	}
	return mk("select", a.Sort.Elem(), a, i)
}

// distinctTerms: syntactically provably different integer terms.
func distinctTerms(a, b *Term) bool {
	if a.IsIntLit() && b.IsIntLit() {
		return a.Int.Cmp(b.Int) != 0
	}
	if a.Op == "app" && a.Name == "idx" && b.Op == "app" && b.Name == "idx" && Equal(a.Args[0], b.Args[0]) {
		return distinctTerms(a.Args[1], b.Args[1])
	}
	// x + c1 vs x + c2, x vs x + c
	ba, ca := splitOffset(a)
	bb, cb := splitOffset(b)
	if ba != nil && bb != nil && Equal(ba, bb) {
		return ca.Cmp(cb) != 0
	}
	return false
}

// Idx is the absolute row index of element i of a slice with offset off. It is kept
// behind an uninterpreted symbol (axiom: idx(o,i) = o + i) so that quantified facts
// about slice elements have a usable E-matching trigger.
func Idx(off, i *Term) *Term {
	if off.IsIntLit() && i.IsIntLit() {
		return Add(off, i)
	}
	if off.IsIntLit() && off.Int.Sign() == 0 {
		return i
	}
	return App("idx", SInt, off, i)
}

func splitOffset(t *Term) (*Term, *big.Int) {
	if t.IsIntLit() {
		return nil, t.Int
	}
	if t.Op == "+" && len(t.Args) == 2 && t.Args[1].IsIntLit() {
		return t.Args[0], t.Args[1].Int
	}
	return t, big.NewInt(0)
}

func Store(a, i, v *Term) *Term {
	if a.Sort.Elem() != v.Sort {
		panic(fmt.Sprintf("Store: sort mismatch array %s value %s:%s", a.Sort, v, v.Sort))
	}
	// overwrite of the same index
	if a.Op == "store" && Equal(a.Args[1], i) {
		return Store(a.Args[0], i, v)
	}
	return mk("store", a.Sort, a, i, v)
}

func ConstArr(s Sort, v *Term) *Term { return &Term{Op: "constarr", Sort: s, Args: []*Term{v}} }

// ---------- quantifiers ----------

func Forall(bound []*Term, body *Term) *Term {
	if body.IsBoolLit() {
		return body
	}
	return &Term{Op: "forall", Sort: SBool, Bound: bound, Args: []*Term{body}}
}

func Exists(bound []*Term, body *Term) *Term {
	if body.IsBoolLit() {
		return body
	}
	return &Term{Op: "exists", Sort: SBool, Bound: bound, Args: []*Term{body}}
}

// ---------- traversal ----------

// Walk visits every subterm.
func (t *Term) Walk(f func(*Term)) {
	f(t)
	for _, a := range t.Args {
		a.Walk(f)
	}
}

// Subst replaces variables by name.
func (t *Term) Subst(m map[string]*Term) *Term {
	if len(m) == 0 {
		return t
	}
	switch t.Op {
	case "lit":
		return t
	case "var":
		if r, ok := m[t.Name]; ok {
			return r
		}
		return t
	case "forall", "exists":
		m2 := m
		for _, b := range t.Bound {
			if _, ok := m[b.Name]; ok {
				if &m2 == &m || len(m2) == len(m) {
					m2 = map[string]*Term{}
					for k, v := range m {
						m2[k] = v
					}
				}
				delete(m2, b.Name)
			}
		}
		body := t.Args[0].Subst(m2)
		return &Term{Op: t.Op, Sort: SBool, Bound: t.Bound, Args: []*Term{body}}
	}
	changed := false
	args := make([]*Term, len(t.Args))
	for i, a := range t.Args {
		args[i] = a.Subst(m)
		if args[i] != a {
			changed = true
		}
	}
	if !changed {
		return t
	}
	return Rebuild(t, args)
}

// Rebuild re-applies the simplifying constructor of t's operator to new args.
func Rebuild(t *Term, args []*Term) *Term {
	switch t.Op {
	case "app":
		return App(t.Name, t.Sort, args...)
	case "not":
		return Not(args[0])
	case "and":
		return And(args...)
	case "or":
		return Or(args...)
	case "=>":
		return Implies(args[0], args[1])
	case "ite":
		return Ite(args[0], args[1], args[2])
	case "=":
		return Eq(args[0], args[1])
	case "<":
		return Lt(args[0], args[1])
	case "<=":
		return Le(args[0], args[1])
	case ">":
		return Gt(args[0], args[1])
	case ">=":
		return Ge(args[0], args[1])
	case "+":
		if len(args) == 2 {
			return Add(args[0], args[1])
		}
	case "-":
		if len(args) == 1 {
			return Neg(args[0])
		}
		if len(args) == 2 {
			return Sub(args[0], args[1])
		}
	case "*":
		if len(args) == 2 {
			return Mul(args[0], args[1])
		}
	case "div":
		return EDiv(args[0], args[1])
	case "mod":
		return EMod(args[0], args[1])
	case "select":
		return Select(args[0], args[1])
	case "store":
		return Store(args[0], args[1], args[2])
	case "constarr":
		return ConstArr(t.Sort, args[0])
	}
	return &Term{Op: t.Op, Name: t.Name, Sort: t.Sort, Args: args}
}

// FreeSymbols collects var and app symbols (name -> signature string).
type SymSig struct {
	Name string
	Args []Sort
	Ret  Sort
}

func (t *Term) Symbols(out map[string]SymSig) {
	collectSymbols([]*Term{t}, out)
}

// collectSymbols: free symbols of a set of terms (DAG traversal, each node once). Names
// that occur as quantifier-bound variables anywhere are not reported (bound variable
// names are never reused as free symbols by the engine).
func collectSymbols(roots []*Term, out map[string]SymSig) {
	visited := map[*Term]bool{}
	boundNames := map[string]bool{}
	vars := map[string]SymSig{}
	var rec func(t *Term)
	rec = func(t *Term) {
		if visited[t] {
			return
		}
		visited[t] = true
		switch t.Op {
		case "var":
			if old, ok := vars[t.Name]; ok && old.Ret != t.Sort {
				panic(fmt.Sprintf("symbol %s used at sorts %s and %s", t.Name, old.Ret, t.Sort))
			}
			vars[t.Name] = SymSig{Name: t.Name, Ret: t.Sort}
		case "app":
			sig := SymSig{Name: t.Name, Ret: t.Sort}
			for _, a := range t.Args {
				sig.Args = append(sig.Args, a.Sort)
			}
			if old, ok := out[t.Name]; ok {
				if old.Ret != sig.Ret || len(old.Args) != len(sig.Args) {
					panic(fmt.Sprintf("symbol %s used with inconsistent signatures", t.Name))
				}
			}
			out[t.Name] = sig
		case "forall", "exists":
			for _, b := range t.Bound {
				boundNames[b.Name] = true
			}
		}
		for _, a := range t.Args {
			rec(a)
		}
	}
	for _, r := range roots {
		rec(r)
	}
	for n, sig := range vars {
		if !boundNames[n] {
			out[n] = sig
		}
	}
}

func SortedKeys[V any](m map[string]V) []string {
	ks := make([]string, 0, len(m))
	for k := range m {
		ks = append(ks, k)
	}
	sort.Strings(ks)
	return ks
}

// seenSet: persistent set of term keys (layers shared between forked states).
type seenSet struct {
	m      map[Key]bool
	parent *seenSet
	depth  int
}

func newSeen(parent *seenSet) *seenSet {
	d := 0
	if parent != nil {
		d = parent.depth + 1
	}
	s := &seenSet{m: map[Key]bool{}, parent: parent, depth: d}
	if d > 48 {
		// flatten
		flat := map[Key]bool{}
		for p := parent; p != nil; p = p.parent {
			for k := range p.m {
				flat[k] = true
			}
		}
		s.parent = &seenSet{m: flat}
		s.depth = 1
	}
	return s
}

func (s *seenSet) Has(k Key) bool {
	for p := s; p != nil; p = p.parent {
		if p.m[k] {
			return true
		}
	}
	return false
}

func (s *seenSet) Add(k Key) { s.m[k] = true }
