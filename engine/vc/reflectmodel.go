package vc

// VRType: a reflect.Type value known to the executor.
type VRType struct {
	T interface{} // types.Type
}

func (ex *Exec) rtypeEq(a, b *VRType) *Term { return False }
