package vc

// Model of package reflect for values whose Go type is statically known to the
// executor ("concrete mode"): reflect.Value is (static type, location or value),
// reflect.Type is the go/types type. The model is part of the trusted base.

import (
	"go/types"
	"reflect"

	"golang.org/x/tools/go/ssa"
)

// VRType: a reflect.Type value.
type VRType struct {
	T types.Type
}

// VReflect: a reflect.Value.
type VReflect struct {
	T      types.Type // nil: the zero (invalid) Value
	Ptr    *VPtr      // addressable: the location
	Val    Value      // otherwise: the value
	CanSet bool
	// method value obtained by MethodByName
	Method string
	Recv   *VReflect
}

func (ex *Exec) rtypeEq(a, b *VRType) *Term { return BoolLit(types.Identical(a.T, b.T)) }

func (ex *Exec) rvGet(st *State, v *VReflect, instr ssa.Instruction) Value {
	if v.Ptr != nil {
		return ex.load(st, v.Ptr, instr)
	}
	return v.Val
}

func kindOf(t types.Type) int64 {
	switch u := t.Underlying().(type) {
	case *types.Basic:
		switch u.Kind() {
		case types.Bool:
			return int64(reflect.Bool)
		case types.Int:
			return int64(reflect.Int)
		case types.Int8:
			return int64(reflect.Int8)
		case types.Int16:
			return int64(reflect.Int16)
		case types.Int32:
			return int64(reflect.Int32)
		case types.Int64:
			return int64(reflect.Int64)
		case types.Uint:
			return int64(reflect.Uint)
		case types.Uint8:
			return int64(reflect.Uint8)
		case types.Uint16:
			return int64(reflect.Uint16)
		case types.Uint32:
			return int64(reflect.Uint32)
		case types.Uint64:
			return int64(reflect.Uint64)
		case types.Uintptr:
			return int64(reflect.Uintptr)
		case types.String:
			return int64(reflect.String)
		case types.Float32:
			return int64(reflect.Float32)
		case types.Float64:
			return int64(reflect.Float64)
		}
	case *types.Struct:
		return int64(reflect.Struct)
	case *types.Pointer:
		return int64(reflect.Ptr)
	case *types.Slice:
		return int64(reflect.Slice)
	case *types.Map:
		return int64(reflect.Map)
	case *types.Interface:
		return int64(reflect.Interface)
	case *types.Array:
		return int64(reflect.Array)
	case *types.Signature:
		return int64(reflect.Func)
	case *types.Chan:
		return int64(reflect.Chan)
	}
	return int64(reflect.Invalid)
}

func (ex *Exec) rv(v Value) *VReflect {
	r, ok := v.(*VReflect)
	if !ok {
		ex.unsupported("reflect.Value that is not statically known (%T)", v)
	}
	return r
}

func (ex *Exec) reflectValueOf(st *State, iv *VIface, instr ssa.Instruction) *VReflect {
	iv, alt := ex.resolveIface(st, iv, instr)
	if alt == nil {
		if iv.Tag.IsIntLit() && iv.Tag.Int.Sign() == 0 {
			return &VReflect{}
		}
		ex.unsupported("reflect.ValueOf of an interface value whose dynamic type is not statically known")
	}
	return &VReflect{T: alt.T, Val: alt.Val}
}

func (ex *Exec) structFieldValue(st *State, t types.Type, i int) Value {
	sft := ex.lookupNamed("reflect.StructField")
	stt := t.Underlying().(*types.Struct)
	f := stt.Field(i)
	names, ftypes, _, _ := ex.structLayout(sft)
	vs := &VStruct{T: sft, Names: names}
	for k, n := range names {
		switch n {
		case "Name":
			vs.Fields = append(vs.Fields, ex.strLit(f.Name()))
		case "PkgPath":
			pp := ""
			if !f.Exported() && f.Pkg() != nil {
				pp = f.Pkg().Path()
			}
			vs.Fields = append(vs.Fields, ex.strLit(pp))
		case "Type":
			vs.Fields = append(vs.Fields, &VRType{T: f.Type()})
		case "Tag":
			vs.Fields = append(vs.Fields, ex.strLit(stt.Tag(i)))
		case "Anonymous":
			vs.Fields = append(vs.Fields, BoolLit(f.Embedded()))
		default:
			vs.Fields = append(vs.Fields, ex.zeroValue(ftypes[k]))
		}
	}
	return vs
}

func init() {
	reg("reflect.ValueOf", func(ex *Exec, st *State, instr ssa.Instruction, args []Value) Value {
		return ex.reflectValueOf(st, args[0].(*VIface), instr)
	})
	reg("reflect.TypeOf", func(ex *Exec, st *State, instr ssa.Instruction, args []Value) Value {
		iv, alt := ex.resolveIface(st, args[0].(*VIface), instr)
		_ = iv
		if alt == nil {
			ex.unsupported("reflect.TypeOf of a symbolic interface")
		}
		return &VRType{T: alt.T}
	})
	reg("(reflect.Value).Kind", func(ex *Exec, st *State, instr ssa.Instruction, args []Value) Value {
		v := ex.rv(args[0])
		if v.T == nil {
			return IntLit(0)
		}
		return IntLit(kindOf(v.T))
	})
	reg("(reflect.Value).Type", func(ex *Exec, st *State, instr ssa.Instruction, args []Value) Value {
		v := ex.rv(args[0])
		if v.T == nil {
			ex.libPanic(st, instr, "panic@reflect.Type-of-zero-Value", "reflect: call of Type on zero Value")
		}
		return &VRType{T: v.T}
	})
	reg("(reflect.Value).Elem", func(ex *Exec, st *State, instr ssa.Instruction, args []Value) Value {
		v := ex.rv(args[0])
		switch u := v.T.Underlying().(type) {
		case *types.Pointer:
			p := ex.rvGet(st, v, instr).(*VPtr)
			if p.Nil.IsTrue() {
				return &VReflect{}
			}
			if !p.Nil.IsFalse() {
				if ex.decide(st, p.Nil) {
					return &VReflect{}
				}
			}
			np := *p
			np.Nil = False
			return &VReflect{T: u.Elem(), Ptr: &np, CanSet: true}
		case *types.Interface:
			iv := ex.rvGet(st, v, instr).(*VIface)
			return ex.reflectValueOf(st, iv, instr)
		}
		ex.libPanic(st, instr, "panic@reflect.Elem", "reflect: call of Elem on a non-pointer Value")
		return nil
	})
	reg("reflect.Indirect", func(ex *Exec, st *State, instr ssa.Instruction, args []Value) Value {
		v := ex.rv(args[0])
		if v.T == nil {
			return v
		}
		if _, ok := v.T.Underlying().(*types.Pointer); ok {
			return libModels["(reflect.Value).Elem"](ex, st, instr, args)
		}
		return v
	})
	reg("(reflect.Value).NumField", func(ex *Exec, st *State, instr ssa.Instruction, args []Value) Value {
		v := ex.rv(args[0])
		s, ok := v.T.Underlying().(*types.Struct)
		if !ok {
			ex.libPanic(st, instr, "panic@reflect.NumField", "reflect: NumField of non-struct")
		}
		return IntLit(int64(s.NumFields()))
	})
	reg("(reflect.Value).Field", func(ex *Exec, st *State, instr ssa.Instruction, args []Value) Value {
		v := ex.rv(args[0])
		i, ok := args[1].(*Term).Int64()
		s, isStruct := v.T.Underlying().(*types.Struct)
		if !ok || !isStruct {
			ex.unsupported("reflect.Value.Field with symbolic index or non-struct")
		}
		if i < 0 || int(i) >= s.NumFields() {
			ex.libPanic(st, instr, "panic@reflect.Field", "reflect: Field index out of range")
		}
		_, _, model, _ := ex.structLayout(v.T)
		if model != nil {
			ex.unsupported("reflect field access into library struct %s", v.T)
		}
		f := s.Field(int(i))
		r := &VReflect{T: f.Type()}
		if v.Ptr != nil {
			r.Ptr = &VPtr{Nil: False, Obj: v.Ptr.Obj, Path: append(append([]int(nil), v.Ptr.Path...), int(i)), T: f.Type()}
			if v.Ptr.Obj == nil {
				ex.unsupported("reflect field of a struct stored in a slice")
			}
			r.CanSet = v.CanSet && f.Exported()
		} else {
			r.Val = v.Val.(*VStruct).Fields[i]
		}
		return r
	})
	reg("(reflect.Value).Interface", func(ex *Exec, st *State, instr ssa.Instruction, args []Value) Value {
		v := ex.rv(args[0])
		if v.T == nil {
			ex.libPanic(st, instr, "panic@reflect.Interface", "reflect: Interface of zero Value")
		}
		val := ex.rvGet(st, v, instr)
		if _, ok := v.T.Underlying().(*types.Interface); ok {
			return val
		}
		return ex.concreteIface(v.T, val)
	})
	reg("(reflect.Value).Addr", func(ex *Exec, st *State, instr ssa.Instruction, args []Value) Value {
		v := ex.rv(args[0])
		if v.Ptr == nil {
			ex.libPanic(st, instr, "panic@reflect.Addr", "reflect.Value.Addr of unaddressable value")
		}
		return &VReflect{T: types.NewPointer(v.T), Val: v.Ptr}
	})
	reg("(reflect.Value).CanSet", func(ex *Exec, st *State, instr ssa.Instruction, args []Value) Value {
		return BoolLit(ex.rv(args[0]).CanSet)
	})
	reg("(reflect.Value).IsNil", func(ex *Exec, st *State, instr ssa.Instruction, args []Value) Value {
		v := ex.rv(args[0])
		val := ex.rvGet(st, v, instr)
		switch x := val.(type) {
		case *VPtr:
			return x.Nil
		case *VIface:
			return Eq(x.Tag, IntLit(0))
		case *VSlice:
			return Eq(x.Ref, IntLit(0))
		case *VMap:
			return Eq(x.Ref, IntLit(0))
		case *VFunc:
			return x.Nil
		}
		ex.libPanic(st, instr, "panic@reflect.IsNil", "reflect: IsNil of a non-nillable kind")
		return nil
	})
	reg("(reflect.Value).Uint", func(ex *Exec, st *State, instr ssa.Instruction, args []Value) Value {
		v := ex.rv(args[0])
		ii, ok := intTypeInfo(v.T)
		if !ok || ii.signed {
			ex.libPanic(st, instr, "panic@reflect.Uint", "reflect: Uint of a non-unsigned kind")
		}
		return ex.rvGet(st, v, instr)
	})
	reg("(reflect.Value).Bool", func(ex *Exec, st *State, instr ssa.Instruction, args []Value) Value {
		v := ex.rv(args[0])
		if !isBool(v.T) {
			ex.libPanic(st, instr, "panic@reflect.Bool", "reflect: Bool of a non-bool kind")
		}
		return ex.rvGet(st, v, instr)
	})
	reg("(reflect.Value).Bytes", func(ex *Exec, st *State, instr ssa.Instruction, args []Value) Value {
		v := ex.rv(args[0])
		if s, ok := v.T.Underlying().(*types.Slice); ok {
			if ii, ok := intTypeInfo(s.Elem()); ok && ii.bits == 8 {
				sl := *(ex.rvGet(st, v, instr).(*VSlice))
				sl.Elem = types.Typ[types.Uint8]
				return &sl
			}
		}
		ex.libPanic(st, instr, "panic@reflect.Bytes", "reflect: Bytes of a non-byte-slice")
		return nil
	})
	setCheck := func(ex *Exec, st *State, instr ssa.Instruction, v *VReflect, what string) {
		if !v.CanSet || v.Ptr == nil {
			ex.libPanic(st, instr, "panic@reflect."+what, "reflect: "+what+" using unaddressable/unexported value")
		}
	}
	reg("(reflect.Value).Set", func(ex *Exec, st *State, instr ssa.Instruction, args []Value) Value {
		v, x := ex.rv(args[0]), ex.rv(args[1])
		setCheck(ex, st, instr, v, "Set")
		if x.T == nil {
			ex.libPanic(st, instr, "panic@reflect.Set-zero", "reflect: Set with zero Value")
		}
		if !types.AssignableTo(x.T, v.T) {
			ex.libPanic(st, instr, "panic@reflect.Set-type", "reflect.Set: value of type "+x.T.String()+" is not assignable to type "+v.T.String())
		}
		val := ex.rvGet(st, x, instr)
		if _, ok := v.T.Underlying().(*types.Interface); ok {
			if _, isI := x.T.Underlying().(*types.Interface); !isI {
				val = ex.concreteIface(x.T, val)
			}
		}
		ex.store(st, v.Ptr, ex.retype(val, v.T), instr)
		return &VTuple{}
	})
	reg("(reflect.Value).SetUint", func(ex *Exec, st *State, instr ssa.Instruction, args []Value) Value {
		v := ex.rv(args[0])
		setCheck(ex, st, instr, v, "SetUint")
		ii, ok := intTypeInfo(v.T)
		if !ok || ii.signed {
			ex.libPanic(st, instr, "panic@reflect.SetUint", "reflect: SetUint of a non-unsigned kind")
		}
		ex.store(st, v.Ptr, wrapInt(v.T, args[1].(*Term)), instr)
		return &VTuple{}
	})
	reg("(reflect.Value).SetBool", func(ex *Exec, st *State, instr ssa.Instruction, args []Value) Value {
		v := ex.rv(args[0])
		setCheck(ex, st, instr, v, "SetBool")
		if !isBool(v.T) {
			ex.libPanic(st, instr, "panic@reflect.SetBool", "reflect: SetBool of a non-bool kind")
		}
		ex.store(st, v.Ptr, args[1], instr)
		return &VTuple{}
	})
	reg("(reflect.Value).SetBytes", func(ex *Exec, st *State, instr ssa.Instruction, args []Value) Value {
		v := ex.rv(args[0])
		setCheck(ex, st, instr, v, "SetBytes")
		s, ok := v.T.Underlying().(*types.Slice)
		if ok {
			if ii, ok2 := intTypeInfo(s.Elem()); !ok2 || ii.bits != 8 {
				ok = false
			}
		}
		if !ok {
			ex.libPanic(st, instr, "panic@reflect.SetBytes", "reflect: SetBytes of a non-byte-slice")
		}
		sl := *(args[1].(*VSlice))
		sl.Elem = s.Elem()
		ex.store(st, v.Ptr, &sl, instr)
		return &VTuple{}
	})
	reg("reflect.New", func(ex *Exec, st *State, instr ssa.Instruction, args []Value) Value {
		rt, ok := args[0].(*VRType)
		if !ok {
			ex.unsupported("reflect.New of a symbolic type")
		}
		obj := ex.newObject("reflect.New", rt.T, true)
		st.mem[obj] = ex.zeroValue(rt.T)
		return &VReflect{T: types.NewPointer(rt.T), Val: &VPtr{Nil: False, Obj: obj, T: rt.T}}
	})
	reg("(reflect.Value).MethodByName", func(ex *Exec, st *State, instr ssa.Instruction, args []Value) Value {
		v := ex.rv(args[0])
		name, ok := ex.strLitContent(args[1].(*Term))
		if !ok {
			ex.unsupported("MethodByName with a non-constant name")
		}
		ms := ex.Prog.MethodSets.MethodSet(v.T)
		var sel *types.Selection
		for i := 0; i < ms.Len(); i++ {
			if ms.At(i).Obj().Name() == name && ms.At(i).Obj().Exported() {
				sel = ms.At(i)
			}
		}
		if sel == nil {
			return &VReflect{}
		}
		return &VReflect{T: sel.Type(), Method: name, Recv: v}
	})
	reg("(reflect.Value).Call", func(ex *Exec, st *State, instr ssa.Instruction, args []Value) Value {
		v := ex.rv(args[0])
		if v.T == nil || v.Method == "" {
			ex.libPanic(st, instr, "panic@reflect.Call", "reflect: call of Call on zero Value")
		}
		in := args[1].(*VSlice)
		if n, ok := in.Len.Int64(); !ok || n != 0 {
			ex.unsupported("reflect Call with arguments")
		}
		recvT := v.Recv.T
		sel := ex.Prog.MethodSets.MethodSet(recvT).Lookup(nil, v.Method)
		if sel == nil {
			ex.unsupported("method %s not found on %s", v.Method, recvT)
		}
		fn := ex.Prog.MethodValue(sel)
		mdl, ok := libModels[calleeName(fn)]
		if !ok {
			ex.unsupported("reflect call of %s: no model", calleeName(fn))
		}
		ex.cur.libCalls[calleeName(fn)] = true
		res := mdl(ex, st, instr, []Value{ex.rvGet(st, v.Recv, instr)})
		sig := sel.Type().(*types.Signature)
		var outs []Value
		switch sig.Results().Len() {
		case 0:
		case 1:
			outs = []Value{res}
		default:
			outs = res.(*VTuple).Vals
		}
		rvt := ex.lookupNamed("reflect.Value")
		ref := ex.allocRow(st, rvt)
		for i, o := range outs {
			ex.heapStore(st, rvt, ref, IntLit(int64(i)), &VReflect{T: sig.Results().At(i).Type(), Val: o})
		}
		n := IntLit(int64(len(outs)))
		return &VSlice{Ref: ref, Off: IntLit(0), Len: n, Cap: n, Elem: rvt}
	})
	reg("(reflect.StructTag).Get", func(ex *Exec, st *State, instr ssa.Instruction, args []Value) Value {
		tag, ok1 := ex.strLitContent(args[0].(*Term))
		key, ok2 := ex.strLitContent(args[1].(*Term))
		if !ok1 || !ok2 {
			ex.unsupported("StructTag.Get on symbolic strings")
		}
		return ex.strLit(reflect.StructTag(tag).Get(key))
	})
}

// rtypeMethod: methods of the reflect.Type interface on a known type.
func (ex *Exec) rtypeMethod(st *State, instr ssa.Instruction, rt *VRType, name string, args []Value) Value {
	switch name {
	case "Kind":
		return IntLit(kindOf(rt.T))
	case "Elem":
		switch u := rt.T.Underlying().(type) {
		case *types.Pointer:
			return &VRType{T: u.Elem()}
		case *types.Slice:
			return &VRType{T: u.Elem()}
		case *types.Array:
			return &VRType{T: u.Elem()}
		case *types.Map:
			return &VRType{T: u.Elem()}
		}
		ex.libPanic(st, instr, "panic@reflect.Type.Elem", "reflect: Elem of invalid type")
	case "NumField":
		if s, ok := rt.T.Underlying().(*types.Struct); ok {
			return IntLit(int64(s.NumFields()))
		}
	case "Field":
		i, ok := args[0].(*Term).Int64()
		s, isStruct := rt.T.Underlying().(*types.Struct)
		if ok && isStruct && i >= 0 && int(i) < s.NumFields() {
			return ex.structFieldValue(st, rt.T, int(i))
		}
		ex.unsupported("Type.Field(%v) of %s", args[0], rt.T)
	case "String", "Name":
		return ex.strLit(types.TypeString(rt.T, func(p *types.Package) string { return p.Name() }))
	}
	ex.unsupported("reflect.Type.%s", name)
	return nil
}
