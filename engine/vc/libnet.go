package vc

import (
	"go/types"
	"net/netip"

	"golang.org/x/tools/go/ssa"
)

// netip.Addr model: (kind, bits, hi, zone); kind 0 = invalid, 1 = IPv4 (bits = the 32-bit
// address, big-endian byte order), 2 = IPv6 (hi/bits = upper/lower 64 bits, zone id).

func (ex *Exec) mkAddr(kind, bits, hi, zone *Term) *VStruct {
	t := ex.lookupNamed("net/netip.Addr")
	return &VStruct{T: t, Names: []string{"kind", "bits", "hi", "zone"}, Fields: []Value{kind, bits, hi, zone}}
}

func addrParts(v Value) (kind, bits, hi, zone *Term) {
	vs := v.(*VStruct)
	return vs.Fields[0].(*Term), vs.Fields[1].(*Term), vs.Fields[2].(*Term), vs.Fields[3].(*Term)
}

func (ex *Exec) mkAddrPort(addr *VStruct, port *Term) *VStruct {
	t := ex.lookupNamed("net/netip.AddrPort")
	names, _, _, _ := ex.structLayout(t)
	return &VStruct{T: t, Names: names, Fields: []Value{addr, port}}
}

func addrPortParts(v Value) (*VStruct, *Term) {
	vs := v.(*VStruct)
	return vs.Fields[0].(*VStruct), vs.Fields[1].(*Term)
}

// bytes of a byte slice as terms
func (ex *Exec) sliceByte(st *State, s *VSlice, i int64) *Term {
	return ex.heapLoad(st, types.Typ[types.Uint8], s.Ref, Idx(s.Off, IntLit(i))).(*Term)
}

func (ex *Exec) newByteSlice(st *State, vals []*Term) *VSlice {
	bt := types.Typ[types.Uint8]
	ref := ex.allocRow(st, bt)
	h := st.heap("H.int", SHInt)
	row := Select(h, ref)
	for i, v := range vals {
		row = Store(row, IntLit(int64(i)), v)
	}
	st.heaps["H.int"] = Store(h, ref, row)
	n := IntLit(int64(len(vals)))
	return &VSlice{Ref: ref, Off: IntLit(0), Len: n, Cap: n, Elem: bt}
}

func be32(b0, b1, b2, b3 *Term) *Term {
	return Add(Add(Add(Mul(b0, IntLit(16777216)), Mul(b1, IntLit(65536))), Mul(b2, IntLit(256))), b3)
}

func (ex *Exec) concreteAddr(a netip.Addr) *VStruct {
	switch {
	case !a.IsValid():
		return ex.mkAddr(IntLit(0), IntLit(0), IntLit(0), IntLit(0))
	case a.Is4():
		b := a.As4()
		return ex.mkAddr(IntLit(1), IntLit(int64(b[0])<<24|int64(b[1])<<16|int64(b[2])<<8|int64(b[3])), IntLit(0), IntLit(0))
	}
	return nil
}

// v4 bytes of a net.IP slice per To4: returns (isV4 condition, 4 byte terms)
func (ex *Exec) ipTo4(st *State, ip *VSlice) (*Term, []*Term) {
	// split on the two shapes
	is4 := Eq(ip.Len, IntLit(4))
	if ex.decide(st, is4) {
		return True, []*Term{ex.sliceByte(st, ip, 0), ex.sliceByte(st, ip, 1), ex.sliceByte(st, ip, 2), ex.sliceByte(st, ip, 3)}
	}
	if !ex.decide(st, Eq(ip.Len, IntLit(16))) {
		return False, nil
	}
	conj := []*Term{}
	for i := int64(0); i < 10; i++ {
		conj = append(conj, Eq(ex.sliceByte(st, ip, i), IntLit(0)))
	}
	conj = append(conj, Eq(ex.sliceByte(st, ip, 10), IntLit(255)), Eq(ex.sliceByte(st, ip, 11), IntLit(255)))
	if !ex.decide(st, And(conj...)) {
		return False, nil
	}
	return True, []*Term{ex.sliceByte(st, ip, 12), ex.sliceByte(st, ip, 13), ex.sliceByte(st, ip, 14), ex.sliceByte(st, ip, 15)}
}

func init() {
	reg("(net/netip.AddrPort).Addr", func(ex *Exec, st *State, instr ssa.Instruction, args []Value) Value {
		a, _ := addrPortParts(args[0])
		return a
	})
	reg("(net/netip.AddrPort).Port", func(ex *Exec, st *State, instr ssa.Instruction, args []Value) Value {
		_, p := addrPortParts(args[0])
		return p
	})
	reg("(net/netip.AddrPort).IsValid", func(ex *Exec, st *State, instr ssa.Instruction, args []Value) Value {
		a, _ := addrPortParts(args[0])
		k, _, _, _ := addrParts(a)
		return Neq(k, IntLit(0))
	})
	reg("(net/netip.Addr).IsValid", func(ex *Exec, st *State, instr ssa.Instruction, args []Value) Value {
		k, _, _, _ := addrParts(args[0])
		return Neq(k, IntLit(0))
	})
	reg("(net/netip.Addr).Is4", func(ex *Exec, st *State, instr ssa.Instruction, args []Value) Value {
		k, _, _, _ := addrParts(args[0])
		return Eq(k, IntLit(1))
	})
	reg("(net/netip.Addr).IsUnspecified", func(ex *Exec, st *State, instr ssa.Instruction, args []Value) Value {
		k, b, h, z := addrParts(args[0])
		return Or(And(Eq(k, IntLit(1)), Eq(b, IntLit(0))), And(Eq(k, IntLit(2)), Eq(b, IntLit(0)), Eq(h, IntLit(0)), Eq(z, IntLit(0))))
	})
	reg("net/netip.IPv4Unspecified", func(ex *Exec, st *State, instr ssa.Instruction, args []Value) Value {
		return ex.mkAddr(IntLit(1), IntLit(0), IntLit(0), IntLit(0))
	})
	reg("net/netip.AddrPortFrom", func(ex *Exec, st *State, instr ssa.Instruction, args []Value) Value {
		return ex.mkAddrPort(args[0].(*VStruct), args[1].(*Term))
	})
	reg("net/netip.MustParseAddrPort", func(ex *Exec, st *State, instr ssa.Instruction, args []Value) Value {
		c, ok := ex.strLitContent(args[0].(*Term))
		if !ok {
			ex.unsupported("netip.MustParseAddrPort of a non-constant string")
		}
		ap, err := netip.ParseAddrPort(c)
		if err != nil {
			ex.libPanic(st, instr, "panic@netip.MustParseAddrPort", "MustParseAddrPort panics on "+c)
		}
		a := ex.concreteAddr(ap.Addr())
		if a == nil {
			ex.unsupported("constant IPv6 address")
		}
		return ex.mkAddrPort(a, IntLit(int64(ap.Port())))
	})
	// ---- address strings (property C15): abstract grammar predicates of spec/addr.spec ----
	const reAddrPort = `[0-9]{1,3}\.[0-9]{1,3}\.[0-9]{1,3}\.[0-9]{1,3}:[0-9]{1,5}`
	const reAddr = `[0-9]{1,3}\.[0-9]{1,3}\.[0-9]{1,3}\.[0-9]{1,3}`
	reg("regexp.MatchString", func(ex *Exec, st *State, instr ssa.Instruction, args []Value) Value {
		pat, ok := ex.strLitContent(args[0].(*Term))
		s := args[1].(*Term)
		switch {
		case ok && pat == reAddrPort:
			return tuple(App("addr.m1", SBool, s), nilIface())
		case ok && pat == reAddr:
			return tuple(App("addr.m2", SBool, s), nilIface())
		}
		// a pattern without a model: arbitrary verdict (a changed pattern cannot be 'proved')
		ex.cur.libCalls["regexp.MatchString with an unmodelled pattern (arbitrary result)"] = true
		return tuple(ex.fresh("match", SBool), ex.maybeError(st, "regexp"))
	})
	reg("net/netip.ParseAddrPort", func(ex *Exec, st *State, instr ssa.Instruction, args []Value) Value {
		s := args[0].(*Term)
		if ex.decide(st, App("addr.isQuadPort", SBool, s)) {
			return tuple(ex.mkAddrPort(ex.mkAddr(IntLit(1), App("addr.quadOf", SInt, s), IntLit(0), IntLit(0)), App("addr.portOf", SInt, s)), nilIface())
		}
		// anything else (IPv6, zones, malformed): unconstrained address or an error
		ap := ex.symbolicValue(st, ex.lookupNamed("net/netip.AddrPort"), ex.fresh("parsed.addrport", SInt).Name, 0)
		return tuple(ap, ex.maybeError(st, "netip.ParseAddrPort"))
	})
	reg("net/netip.ParseAddr", func(ex *Exec, st *State, instr ssa.Instruction, args []Value) Value {
		s := args[0].(*Term)
		if ex.decide(st, App("addr.isQuad", SBool, s)) {
			return tuple(ex.mkAddr(IntLit(1), App("addr.quadOf", SInt, s), IntLit(0), IntLit(0)), nilIface())
		}
		a := ex.symbolicValue(st, ex.lookupNamed("net/netip.Addr"), ex.fresh("parsed.addr", SInt).Name, 0)
		return tuple(a, ex.maybeError(st, "netip.ParseAddr"))
	})
	// fmt.Sprintf("%v", x) of a netip.Addr / netip.AddrPort holding an IPv4 address: its canonical text
	sprintfModels["%v"] = func(ex *Exec, st *State, instr ssa.Instruction, args []Value) Value {
		if len(args) != 1 {
			return nil
		}
		iv, ok := args[0].(*VIface)
		if !ok || len(iv.Alts) != 1 {
			return nil
		}
		switch typeKey(iv.Alts[0].T) {
		case "*net.UDPAddr", "*net.TCPAddr":
			// the text of a socket address: abstract, but it determines the address (net.textIP / net.textPort)
			p, ok := iv.Alts[0].Val.(*VPtr)
			if !ok || p.Obj == nil {
				return nil
			}
			if !ex.decide(st, Not(p.Nil)) {
				return ex.fresh("addr.text", SStr)
			}
			vs, ok := ex.load(st, p, instr).(*VStruct)
			if !ok || len(vs.Fields) < 2 {
				return nil
			}
			ip, ok1 := vs.Fields[0].(*VSlice)
			port, ok2 := vs.Fields[1].(*Term)
			if !ok1 || !ok2 {
				return nil
			}
			r := ex.fresh("sockaddr.text", SStr)
			st.assume(Eq(App("net.textPort", SInt, r), port))
			if ex.decide(st, Eq(ip.Len, IntLit(4))) {
				st.assume(Eq(App("net.textIP", SInt, r), be32(ex.sliceByte(st, ip, 0), ex.sliceByte(st, ip, 1), ex.sliceByte(st, ip, 2), ex.sliceByte(st, ip, 3))))
			}
			return r
		case "net/netip.Addr":
			kind, bits, _, _ := addrParts(iv.Alts[0].Val)
			r := ex.fresh("addr.text", SStr)
			st.assume(Implies(Eq(kind, IntLit(1)), And(App("addr.isQuad", SBool, r), Eq(App("addr.quadOf", SInt, r), bits))))
			return r
		case "net/netip.AddrPort":
			a, port := addrPortParts(iv.Alts[0].Val)
			kind, bits, _, _ := addrParts(a)
			r := ex.fresh("addrport.text", SStr)
			st.assume(Implies(Eq(kind, IntLit(1)), And(App("addr.isQuadPort", SBool, r), Eq(App("addr.quadOf", SInt, r), bits), Eq(App("addr.portOf", SInt, r), port))))
			return r
		}
		// a value of a module type with a value-receiver String method under contract: fmt calls that method
		// (fmt.Stringer; none of the module's types implements fmt.Formatter or error on these values)
		if n, ok := iv.Alts[0].T.(*types.Named); ok && n.Obj().Pkg() != nil {
			key := n.Obj().Pkg().Path() + ".(" + n.Obj().Name() + ").String"
			if fn, ok := ex.FuncByKey[key]; ok {
				if ct, ok := ex.Contracts[key]; ok && !implementsFormatterOrError(n) {
					ex.cur.contractsUsed[key] = true
					return ex.callWithContract(st, instr, fn, ct, []Value{iv.Alts[0].Val})
				}
			}
		}
		return nil
	}
	reg("net/netip.AddrFromSlice", func(ex *Exec, st *State, instr ssa.Instruction, args []Value) Value {
		s := args[0].(*VSlice)
		if ex.decide(st, Eq(s.Len, IntLit(4))) {
			bits := be32(ex.sliceByte(st, s, 0), ex.sliceByte(st, s, 1), ex.sliceByte(st, s, 2), ex.sliceByte(st, s, 3))
			return tuple(ex.mkAddr(IntLit(1), bits, IntLit(0), IntLit(0)), True)
		}
		if ex.decide(st, Eq(s.Len, IntLit(16))) {
			hi := ex.fresh("ip6hi", SInt)
			lo := ex.fresh("ip6lo", SInt)
			st.assume(And(Le(IntLit(0), hi), Le(IntLit(0), lo)))
			return tuple(ex.mkAddr(IntLit(2), lo, hi, IntLit(0)), True)
		}
		return tuple(ex.mkAddr(IntLit(0), IntLit(0), IntLit(0), IntLit(0)), False)
	})
	reg("(net/netip.AddrPort).MarshalBinary", func(ex *Exec, st *State, instr ssa.Instruction, args []Value) Value {
		a, port := addrPortParts(args[0])
		k, bits, _, _ := addrParts(a)
		pw := ex.byteWitnesses(st, port, 2)
		if ex.decide(st, Eq(k, IntLit(1))) {
			w := ex.byteWitnesses(st, bits, 4)
			return tuple(ex.newByteSlice(st, []*Term{w[3], w[2], w[1], w[0], pw[0], pw[1]}), nilIface())
		}
		if ex.decide(st, Eq(k, IntLit(0))) {
			return tuple(ex.newByteSlice(st, []*Term{pw[0], pw[1]}), nilIface())
		}
		// IPv6: 16 address bytes (+ zone) + 2: length >= 18
		bt := types.Typ[types.Uint8]
		ref := ex.allocRow(st, bt)
		h := st.heap("H.int", SHInt)
		st.heaps["H.int"] = Store(h, ref, ex.fresh("row", SArr))
		n := ex.fresh("mblen", SInt)
		st.assume(And(Le(IntLit(18), n), Le(n, IntLit(1<<20))))
		return tuple(&VSlice{Ref: ref, Off: IntLit(0), Len: n, Cap: n, Elem: bt}, nilIface())
	})
	reg("(*net/netip.AddrPort).UnmarshalBinary", func(ex *Exec, st *State, instr ssa.Instruction, args []Value) Value {
		p := args[0].(*VPtr)
		b := args[1].(*VSlice)
		if ex.decide(st, Lt(b.Len, IntLit(2))) {
			return ex.newError(st, "unmarshalbinary")
		}
		if ex.decide(st, Eq(b.Len, IntLit(6))) {
			bits := be32(ex.sliceByte(st, b, 0), ex.sliceByte(st, b, 1), ex.sliceByte(st, b, 2), ex.sliceByte(st, b, 3))
			port := Add(ex.sliceByte(st, b, 4), Mul(ex.sliceByte(st, b, 5), IntLit(256)))
			ex.store(st, p, ex.mkAddrPort(ex.mkAddr(IntLit(1), bits, IntLit(0), IntLit(0)), port), instr)
			return nilIface()
		}
		// other lengths: not modelled in detail
		cur := ex.load(st, p, instr)
		ex.store(st, p, ex.havocValue(st, p.T, cur, "addrport"), instr)
		return ex.maybeError(st, "unmarshalbinary")
	})
	fromAddrPort := func(tname string) libModel {
		return func(ex *Exec, st *State, instr ssa.Instruction, args []Value) Value {
			a, port := addrPortParts(args[0])
			k, bits, _, _ := addrParts(a)
			t := ex.lookupNamed(tname)
			names, ftypes, _, _ := ex.structLayout(t)
			var ip *VSlice
			ipT := ex.lookupNamed("net.IP")
			if ex.decide(st, Eq(k, IntLit(1))) {
				w := ex.byteWitnesses(st, bits, 4)
				ip = ex.newByteSlice(st, []*Term{w[3], w[2], w[1], w[0]})
			} else if ex.decide(st, Eq(k, IntLit(0))) {
				ip = &VSlice{Ref: IntLit(0), Off: IntLit(0), Len: IntLit(0), Cap: IntLit(0)}
			} else {
				bt := types.Typ[types.Uint8]
				ref := ex.allocRow(st, bt)
				h := st.heap("H.int", SHInt)
				st.heaps["H.int"] = Store(h, ref, ex.fresh("row", SArr))
				ip = &VSlice{Ref: ref, Off: IntLit(0), Len: IntLit(16), Cap: IntLit(16)}
			}
			ip.Elem = ipT.Underlying().(*types.Slice).Elem()
			vs := &VStruct{T: t, Names: names}
			for i, n := range names {
				switch n {
				case "IP":
					vs.Fields = append(vs.Fields, ip)
				case "Port":
					vs.Fields = append(vs.Fields, port)
				default:
					vs.Fields = append(vs.Fields, ex.zeroValue(ftypes[i]))
				}
			}
			obj := ex.newObject(tname, t, true)
			st.mem[obj] = vs
			return &VPtr{Nil: False, Obj: obj, T: t}
		}
	}
	reg("net.UDPAddrFromAddrPort", fromAddrPort("net.UDPAddr"))
	reg("net.TCPAddrFromAddrPort", fromAddrPort("net.TCPAddr"))
	reg("(net.IP).To4", func(ex *Exec, st *State, instr ssa.Instruction, args []Value) Value {
		ip := args[0].(*VSlice)
		ok, bs := ex.ipTo4(st, ip)
		if ok.IsFalse() {
			return &VSlice{Ref: IntLit(0), Off: IntLit(0), Len: IntLit(0), Cap: IntLit(0), Elem: ip.Elem}
		}
		_ = bs
		if n, _ := ip.Len.Int64(); n == 4 || st.knows(Eq(ip.Len, IntLit(4))) {
			return ip
		}
		return &VSlice{Ref: ip.Ref, Off: Add(ip.Off, IntLit(12)), Len: IntLit(4), Cap: Sub(ip.Cap, IntLit(12)), Elem: ip.Elem}
	})
	reg("net.IPv4", func(ex *Exec, st *State, instr ssa.Instruction, args []Value) Value {
		vals := make([]*Term, 16)
		for i := 0; i < 10; i++ {
			vals[i] = IntLit(0)
		}
		vals[10], vals[11] = IntLit(255), IntLit(255)
		for i := 0; i < 4; i++ {
			vals[12+i] = args[i].(*Term)
		}
		s := ex.newByteSlice(st, vals)
		s.Elem = ex.lookupNamed("net.IP").Underlying().(*types.Slice).Elem()
		return s
	})
	reg("(net.IP).String", func(ex *Exec, st *State, instr ssa.Instruction, args []Value) Value { return ex.fresh("ip.str", SStr) })
	reg("(net.HardwareAddr).String", func(ex *Exec, st *State, instr ssa.Instruction, args []Value) Value { return ex.fresh("mac.str", SStr) })
	reg("(*net.UDPAddr).String", func(ex *Exec, st *State, instr ssa.Instruction, args []Value) Value {
		return ex.fresh("udpaddr.str", SStr)
	})
	libGlobals["net.IPv4bcast"] = func(ex *Exec, st *State, t types.Type) Value {
		vals := make([]*Term, 16)
		for i := 0; i < 10; i++ {
			vals[i] = IntLit(0)
		}
		for i := 10; i < 16; i++ {
			vals[i] = IntLit(255)
		}
		s := ex.newByteSlice(st, vals)
		s.Elem = t.Underlying().(*types.Slice).Elem()
		return s
	}
}

// implementsFormatterOrError: the type has a Format or Error method (fmt would use those before String)
func implementsFormatterOrError(n *types.Named) bool {
	ms := types.NewMethodSet(n)
	for i := 0; i < ms.Len(); i++ {
		switch ms.At(i).Obj().Name() {
		case "Format", "Error", "GoString":
			return true
		}
	}
	return false
}
