package vc

import (
	"fmt"
	"go/constant"
	"go/token"
	"go/types"
	"math/big"
	"strings"

	"golang.org/x/tools/go/ssa"
)

// val evaluates an SSA operand.
func (ex *Exec) val(st *State, fr *Frame, v ssa.Value) Value {
	switch x := v.(type) {
	case *ssa.Const:
		return ex.constValue(x)
	case *ssa.Global:
		if at, ok := x.Type().(*types.Pointer).Elem().Underlying().(*types.Array); ok && x.Pkg != nil && strings.HasPrefix(x.Pkg.Pkg.Path(), ex.ModulePath) {
			// a package-level array of the module lives in a heap row of its own (allocated by the package
			// initialiser's run); if the package writes to it outside the initialiser its content is unknown
			if ref, ok := ex.globalRow(st, x, at); ok {
				return &VPtr{Nil: False, ElemRef: ref, ElemIdx: nil, ElemT: at.Elem(), T: x.Type().(*types.Pointer).Elem()}
			}
		}
		obj := ex.globalObject(st, x)
		return &VPtr{Nil: False, Obj: obj, T: x.Type().(*types.Pointer).Elem()}
	case *ssa.Function:
		return &VFunc{Fn: x, Nil: False}
	case *ssa.Builtin:
		return &VFunc{Sym: "builtin:" + x.Name(), Nil: False}
	}
	if r, ok := fr.regs[v]; ok {
		return r
	}
	panic(fmt.Sprintf("val: no value for %s (%T) in %s", v.Name(), v, fr.fn))
}

func (ex *Exec) constValue(c *ssa.Const) Value {
	t := c.Type()
	if c.Value == nil {
		return ex.zeroValue(t)
	}
	switch c.Value.Kind() {
	case constant.Bool:
		return BoolLit(constant.BoolVal(c.Value))
	case constant.String:
		return ex.strLit(constant.StringVal(c.Value))
	case constant.Int:
		bi, ok := new(big.Int).SetString(c.Value.ExactString(), 10)
		if !ok {
			panic("bad int constant " + c.Value.ExactString())
		}
		if _, isInt := intTypeInfo(t); isInt {
			return BigLit(bi)
		}
		if isFloat(t) {
			return &VOpaque{T: t, ID: BigLit(bi)}
		}
		return BigLit(bi)
	case constant.Float, constant.Complex:
		return &VOpaque{T: t, ID: IntLit(0)}
	}
	panic("constValue: unsupported constant " + c.String())
}

type pathEnd struct{ reason string }

// step executes one instruction of the top frame. It returns false when the path has ended.
func (ex *Exec) step(st *State) bool {
	fr := st.top()
	if fr.idx >= len(fr.block.Instrs) {
		panic("fell off block end")
	}
	instr := fr.block.Instrs[fr.idx]
	switch in := instr.(type) {
	case *ssa.DebugRef:
		fr.idx++
		return true
	case *ssa.Alloc:
		ex.doAlloc(st, fr, in)
	case *ssa.Store:
		p := ex.val(st, fr, in.Addr).(*VPtr)
		ex.store(st, p, ex.val(st, fr, in.Val), in)
	case *ssa.UnOp:
		fr.regs[in] = ex.doUnOp(st, fr, in)
	case *ssa.BinOp:
		fr.regs[in] = ex.doBinOp(st, fr, in)
	case *ssa.Phi:
		found := false
		for i, p := range fr.block.Preds {
			if p == fr.prev {
				fr.regs[in] = ex.val(st, fr, in.Edges[i])
				found = true
				break
			}
		}
		if !found {
			if _, ok := fr.regs[in]; !ok {
				panic("phi without matching predecessor")
			}
		}
	case *ssa.ChangeType:
		fr.regs[in] = ex.retype(ex.val(st, fr, in.X), in.Type())
	case *ssa.Convert:
		fr.regs[in] = ex.doConvert(st, fr, in)
	case *ssa.MultiConvert:
		ex.unsupported("MultiConvert")
	case *ssa.ChangeInterface:
		fr.regs[in] = ex.val(st, fr, in.X)
	case *ssa.MakeInterface:
		x := ex.val(st, fr, in.X)
		fr.regs[in] = ex.concreteIface(in.X.Type(), x)
	case *ssa.TypeAssert:
		fr.regs[in] = ex.doTypeAssert(st, fr, in)
	case *ssa.Extract:
		t := ex.val(st, fr, in.Tuple).(*VTuple)
		fr.regs[in] = t.Vals[in.Index]
	case *ssa.Field:
		x := ex.val(st, fr, in.X).(*VStruct)
		fr.regs[in] = x.Fields[in.Field]
	case *ssa.FieldAddr:
		p := ex.val(st, fr, in.X).(*VPtr)
		ex.check(st, "nil", in, Not(p.Nil), "nil pointer dereference (field address)")
		st0 := p.T.Underlying().(*types.Struct)
		np := &VPtr{Nil: False, Obj: p.Obj, Path: append(append([]int(nil), p.Path...), in.Field), T: st0.Field(in.Field).Type()}
		if p.Obj == nil {
			if p.ElemRef != nil && p.ElemIdx != nil {
				// field of a struct stored in a slice/array element
				np.ElemRef, np.ElemIdx, np.ElemT = p.ElemRef, p.ElemIdx, p.ElemT
			} else {
				np.Nil = True // unreachable
			}
		}
		fr.regs[in] = np
	case *ssa.IndexAddr:
		fr.regs[in] = ex.doIndexAddr(st, fr, in)
	case *ssa.Index:
		fr.regs[in] = ex.doIndex(st, fr, in)
	case *ssa.Lookup:
		fr.regs[in] = ex.doLookup(st, fr, in)
	case *ssa.MapUpdate:
		ex.doMapUpdate(st, fr, in)
	case *ssa.MakeMap:
		fr.regs[in] = ex.makeMap(st, in.Type().Underlying().(*types.Map))
	case *ssa.MakeSlice:
		fr.regs[in] = ex.doMakeSlice(st, fr, in)
	case *ssa.MakeChan:
		id := ex.fresh("chan", SInt)
		if sz, ok := ex.val(st, fr, in.Size).(*Term); ok {
			st.assume(Eq(App("chan.cap", SInt, id), sz))
		}
		fr.regs[in] = &VOpaque{T: in.Type(), ID: id}
	case *ssa.MakeClosure:
		fn := in.Fn.(*ssa.Function)
		env := make([]Value, len(in.Bindings))
		for i, b := range in.Bindings {
			env[i] = ex.val(st, fr, b)
		}
		fr.regs[in] = &VFunc{Fn: fn, Env: env, Nil: False}
	case *ssa.Slice:
		fr.regs[in] = ex.doSlice(st, fr, in)
	case *ssa.SliceToArrayPointer:
		ex.unsupported("SliceToArrayPointer")
	case *ssa.Range:
		fr.regs[in] = ex.doRange(st, fr, in)
	case *ssa.Next:
		fr.regs[in] = ex.doNext(st, fr, in)
	case *ssa.Call:
		return ex.doCall(st, fr, in, in.Common())
	case *ssa.Defer:
		c := in.Common()
		d := deferred{call: c, inst: in}
		if !c.IsInvoke() {
			d.fn = ex.val(st, fr, c.Value)
		} else {
			d.fn = ex.val(st, fr, c.Value)
		}
		for _, a := range c.Args {
			d.args = append(d.args, ex.val(st, fr, a))
		}
		fr.defers = append(fr.defers, d)
	case *ssa.Go:
		ex.doGo(st, fr, in)
	case *ssa.Send:
		ex.doSend(st, fr, in)
	case *ssa.Select:
		fr.regs[in] = ex.doSelect(st, fr, in)
	case *ssa.RunDefers:
		return ex.doRunDefers(st, fr, in)
	case *ssa.If:
		c := ex.val(st, fr, in.Cond).(*Term)
		taken := ex.decide(st, c)
		if taken {
			ex.jump(st, fr, fr.block.Succs[0])
		} else {
			ex.jump(st, fr, fr.block.Succs[1])
		}
		return ex.enterBlock(st)
	case *ssa.Jump:
		ex.jump(st, fr, fr.block.Succs[0])
		return ex.enterBlock(st)
	case *ssa.Return:
		var res []Value
		for _, r := range in.Results {
			res = append(res, ex.val(st, fr, r))
		}
		return ex.doReturn(st, fr, res, in)
	case *ssa.Panic:
		return ex.doPanic(st, fr, in)
	default:
		ex.unsupported("instruction %T", instr)
	}
	fr.idx++
	return true
}

func (ex *Exec) jump(st *State, fr *Frame, to *ssa.BasicBlock) {
	fr.prev = fr.block
	fr.block = to
	fr.idx = 0
}

// retype re-labels struct values when a ChangeType conversion is applied.
func (ex *Exec) retype(v Value, t types.Type) Value {
	switch x := v.(type) {
	case *VStruct:
		c := *x
		c.T = t
		return &c
	case *VSlice:
		if s, ok := t.Underlying().(*types.Slice); ok {
			c := *x
			c.Elem = s.Elem()
			return &c
		}
	case *VMap:
		if m, ok := t.Underlying().(*types.Map); ok {
			c := *x
			c.T = m
			return &c
		}
	case *VPtr:
		if p, ok := t.Underlying().(*types.Pointer); ok {
			c := *x
			c.T = p.Elem()
			return &c
		}
	}
	return v
}

func (ex *Exec) doAlloc(st *State, fr *Frame, in *ssa.Alloc) {
	et := in.Type().(*types.Pointer).Elem()
	if at, ok := et.Underlying().(*types.Array); ok {
		// arrays live in the heap as fixed-length rows
		ref := ex.allocRow(st, at.Elem())
		fr.regs[in] = &VPtr{Nil: False, ElemRef: ref, ElemIdx: nil, ElemT: at.Elem(), T: et}
		return
	}
	name := in.Comment
	if name == "" {
		name = in.Name()
	}
	// object identity is a function of the allocation site, the call stack and the
	// execution count, so that paths reaching the same point agree on it (state merging)
	if fr.allocCount == nil {
		fr.allocCount = map[ssa.Instruction]int{}
	}
	fr.allocCount[in]++
	var kb strings.Builder
	for _, f := range st.frames {
		fmt.Fprintf(&kb, "%p:%d:%d:%d|", f.fn, f.block.Index, f.idx, f.instance)
	}
	fmt.Fprintf(&kb, "%p#%d", in, fr.allocCount[in])
	key := kb.String()
	obj, ok := ex.cur.allocObjs[key]
	if !ok {
		obj = ex.newObject(fmt.Sprintf("%s.%s", fr.fn.Name(), name), et, true)
		obj.Site = in
		ex.cur.allocObjs[key] = obj
	}
	st.mem[obj] = ex.zeroValue(et)
	fr.regs[in] = &VPtr{Nil: False, Obj: obj, T: et}
}

func (ex *Exec) doUnOp(st *State, fr *Frame, in *ssa.UnOp) Value {
	x := ex.val(st, fr, in.X)
	switch in.Op {
	case token.MUL: // load
		p := x.(*VPtr)
		if at, ok := p.T.Underlying().(*types.Array); ok && p.ElemRef != nil && p.ElemIdx == nil {
			// array value: copy of the row
			ex.check(st, "nil", in, Not(p.Nil), "nil pointer dereference")
			return ex.copyArray(st, at, p.ElemRef)
		}
		return ex.load(st, p, in)
	case token.NOT:
		return Not(x.(*Term))
	case token.SUB:
		t := x.(*Term)
		r := Neg(t)
		ex.overflowCheck(st, in, in.Type(), r)
		return wrapInt(in.Type(), r)
	case token.XOR:
		return App("bitnot", SInt, x.(*Term))
	case token.ARROW:
		// channel receive: arbitrary value
		if ch, ok := x.(*VOpaque); ok && ch.ID != nil {
			if d, ok := st.ghost["$timer!"+ch.ID.Name].(*Term); ok {
				// a timer channel (time.After): never blocks for ever, holds the caller for its duration
				if g, ok := st.ghost["clock.slept"].(*Term); ok {
					st.ghost["clock.slept"] = Add(g, d)
				}
				return ex.symbolicValue(st, in.Type(), ex.fresh("tick", SInt).Name, 0)
			}
		}
		ex.blockCheck(st, in, "channel receive that may block", False)
		if in.CommaOk {
			tt := in.Type().(*types.Tuple)
			return &VTuple{Vals: []Value{ex.symbolicValue(st, tt.At(0).Type(), ex.fresh("recv", SInt).Name, 0), ex.fresh("recvok", SBool)}}
		}
		// deterministic name (the instruction may be re-executed after a case split); the value is
		// remembered as the ghost "last received" for contracts (chanlast())
		rv := ex.symbolicValue(st, in.Type(), fmt.Sprintf("recv!%s!%d", ex.siteName(st, in, "recv"), st.top().visits[st.top().block]), 0)
		st.ghost["$lastrecv"] = rv
		return rv
	}
	ex.unsupported("unary operator %s", in.Op)
	return nil
}

// arrayPtr: pointer to a whole heap array has ElemRef set and ElemIdx nil.
func (ex *Exec) copyArray(st *State, at *types.Array, ref *Term) Value {
	nref := st.alloc
	st.alloc = Add(st.alloc, IntLit(1))
	st.freshRefs = append(st.freshRefs, nref)
	leaves, err := ex.flattenType(at.Elem())
	if err != nil {
		ex.unsupported("%v", err)
	}
	for _, lf := range leaves {
		key := heapKey(at.Elem(), lf)
		h := st.heap(key, HeapOf(lf.Sort))
		st.heaps[key] = Store(h, nref, Select(h, ref))
	}
	n := IntLit(at.Len())
	return &VSlice{Ref: nref, Off: IntLit(0), Len: n, Cap: n, Elem: at.Elem()}
}

func (ex *Exec) overflowCheck(st *State, instr ssa.Instruction, t types.Type, r *Term) {
	if !ex.OverflowChk {
		return
	}
	ii, ok := intTypeInfo(t)
	if !ok || ii.bits != 64 || r.IsIntLit() {
		return
	}
	ex.check(st, "overflow", instr, And(Le(BigLit(ii.min()), r), Le(r, BigLit(ii.max()))), "64-bit integer overflow (the proof treats int/int64/uint64 as mathematical integers)")
}

func pow2(k int64) *big.Int { return new(big.Int).Lsh(big.NewInt(1), uint(k)) }

func (ex *Exec) doBinOp(st *State, fr *Frame, in *ssa.BinOp) Value {
	xv := ex.val(st, fr, in.X)
	yv := ex.val(st, fr, in.Y)
	switch in.Op {
	case token.EQL:
		return ex.valuesEqual(st, in.X.Type(), xv, yv)
	case token.NEQ:
		return Not(ex.valuesEqual(st, in.X.Type(), xv, yv))
	}
	xt := in.X.Type()
	if isString(xt) {
		x, y := xv.(*Term), yv.(*Term)
		switch in.Op {
		case token.ADD:
			return ex.strConcat(st, x, y)
		case token.LSS, token.LEQ, token.GTR, token.GEQ:
			return App("strcmp."+in.Op.String(), SBool, x, y)
		}
		ex.unsupported("string operator %s", in.Op)
	}
	if isFloat(xt) {
		return &VOpaque{T: in.Type(), ID: ex.fresh("float", SInt)}
	}
	x, ok1 := xv.(*Term)
	y, ok2 := yv.(*Term)
	if !ok1 || !ok2 {
		ex.unsupported("binary operator %s on %T, %T", in.Op, xv, yv)
	}
	rt := in.Type()
	switch in.Op {
	case token.LSS:
		return Lt(x, y)
	case token.LEQ:
		return Le(x, y)
	case token.GTR:
		return Gt(x, y)
	case token.GEQ:
		return Ge(x, y)
	case token.LAND:
		return And(x, y)
	case token.LOR:
		return Or(x, y)
	case token.ADD:
		r := Add(x, y)
		ex.overflowCheck(st, in, rt, r)
		return wrapInt(rt, r)
	case token.SUB:
		r := Sub(x, y)
		ex.overflowCheck(st, in, rt, r)
		return wrapInt(rt, r)
	case token.MUL:
		r := Mul(x, y)
		ex.overflowCheck(st, in, rt, r)
		return wrapInt(rt, r)
	case token.QUO, token.REM:
		ex.check(st, "div", in, Neq(y, IntLit(0)), "integer division by zero")
		return ex.goDivRem(st, in.Op == token.QUO, x, y, rt)
	case token.AND:
		if x.Sort == SBool {
			return And(x, y)
		}
		return ex.bitAnd(x, y, rt)
	case token.OR:
		if x.Sort == SBool {
			return Or(x, y)
		}
		if x.IsIntLit() && x.Int.Sign() == 0 {
			return y
		}
		if y.IsIntLit() && y.Int.Sign() == 0 {
			return x
		}
		if x.IsIntLit() && y.IsIntLit() {
			return BigLit(new(big.Int).Or(x.Int, y.Int))
		}
		return ex.bitOrXor(st, "bitor", x, y, rt)
	case token.XOR:
		if x.IsIntLit() && y.IsIntLit() {
			return BigLit(new(big.Int).Xor(x.Int, y.Int))
		}
		return ex.bitOrXor(st, "bitxor", x, y, rt)
	case token.AND_NOT:
		return ex.opaqueInt(st, rt, App("bitandnot", SInt, x, y))
	case token.SHL:
		if k, ok := y.Int64(); ok && k >= 0 && k < 64 {
			r := Mul(x, BigLit(pow2(k)))
			ii, _ := intTypeInfo(rt)
			if ii.bits == 64 {
				ex.overflowCheck(st, in, rt, r)
			}
			return wrapInt(rt, r)
		}
		return ex.opaqueInt(st, rt, App("shl", SInt, x, y))
	case token.SHR:
		if k, ok := y.Int64(); ok && k >= 0 && k < 64 {
			return EDiv(x, BigLit(pow2(k))) // floor division == arithmetic shift
		}
		return ex.opaqueInt(st, rt, App("shr", SInt, x, y))
	}
	ex.unsupported("binary operator %s", in.Op)
	return nil
}

// bitOrXor: x | y and x ^ y. Unsigned types of at most 8 bits: exact (bit by bit). Wider types: the
// operator stays uninterpreted with the facts that hold for every pair of non-negative operands - bounds,
// and r == x + y when the operands occupy disjoint bit ranges (x a multiple of 2^k, y below 2^k: the usual
// way of packing fields and bytes) - sound, not complete.
func (ex *Exec) bitOrXor(st *State, op string, x, y *Term, rt types.Type) *Term {
	ii, _ := intTypeInfo(rt)
	r := App(op, SInt, x, y)
	st.assume(rangeFact(rt, r))
	if !ii.signed && ii.bits <= 8 {
		var sum *Term = IntLit(0)
		for i := int64(0); i < int64(ii.bits); i++ {
			bx := EMod(EDiv(x, BigLit(pow2(i))), IntLit(2))
			by := EMod(EDiv(y, BigLit(pow2(i))), IntLit(2))
			var bit *Term
			if op == "bitor" {
				bit = Ite(Or(Eq(bx, IntLit(1)), Eq(by, IntLit(1))), IntLit(1), IntLit(0))
			} else {
				bit = Ite(Neq(bx, by), IntLit(1), IntLit(0))
			}
			sum = Add(sum, Mul(bit, BigLit(pow2(i))))
		}
		st.assume(Eq(r, sum))
	}
	nn := And(Le(IntLit(0), x), Le(IntLit(0), y))
	if op == "bitor" {
		st.assume(Implies(nn, And(Le(x, r), Le(y, r), Le(r, Add(x, y)))))
	} else {
		st.assume(Implies(nn, And(Le(IntLit(0), r), Le(r, Add(x, y)))))
	}
	step := int64(4)
	if ii.bits <= 8 {
		step = 1
	}
	for k := step; k < int64(ii.bits); k += step {
		p := BigLit(pow2(k))
		st.assume(Implies(And(nn, Eq(EMod(x, p), IntLit(0)), Lt(y, p)), Eq(r, Add(x, y))))
		st.assume(Implies(And(nn, Eq(EMod(y, p), IntLit(0)), Lt(x, p)), Eq(r, Add(x, y))))
	}
	return r
}

func (ex *Exec) opaqueInt(st *State, t types.Type, v *Term) *Term {
	st.assume(rangeFact(t, v))
	return v
}

// goDivRem: Go's truncated division expressed with SMT-LIB euclidean div/mod.
func (ex *Exec) goDivRem(st *State, quo bool, x, y *Term, t types.Type) *Term {
	ii, _ := intTypeInfo(t)
	nonneg := !ii.signed
	if quo {
		if nonneg || (y.IsIntLit() && y.Int.Sign() > 0 && knownNonNeg(st, x)) {
			return EDiv(x, y)
		}
		// trunc: sign handling
		absx := Ite(Ge(x, IntLit(0)), x, Neg(x))
		absy := Ite(Ge(y, IntLit(0)), y, Neg(y))
		q := EDiv(absx, absy)
		return Ite(Iff(Ge(x, IntLit(0)), Ge(y, IntLit(0))), q, Neg(q))
	}
	if nonneg || (y.IsIntLit() && y.Int.Sign() > 0 && knownNonNeg(st, x)) {
		return EMod(x, y)
	}
	absx := Ite(Ge(x, IntLit(0)), x, Neg(x))
	absy := Ite(Ge(y, IntLit(0)), y, Neg(y))
	m := EMod(absx, absy)
	return Ite(Ge(x, IntLit(0)), m, Neg(m))
}

// knownNonNeg: syntactic check (literal, len, or an assumption 0 <= x on the path).
func knownNonNeg(st *State, x *Term) bool {
	if x.IsIntLit() {
		return x.Int.Sign() >= 0
	}
	if x.Op == "app" && (x.Name == "slen") {
		return true
	}
	if x.Op == "+" {
		ok := true
		for _, a := range x.Args {
			if !knownNonNeg(st, a) {
				ok = false
			}
		}
		if ok {
			return true
		}
	}
	if x.Op == "mod" || x.Op == "div" {
		if x.Args[1].IsIntLit() && x.Args[1].Int.Sign() > 0 && (x.Op == "mod" || knownNonNeg(st, x.Args[0])) {
			return true
		}
	}
	if st.seen.Has(Le(IntLit(0), x).Key()) || st.seen.Has(Ge(x, IntLit(0)).Key()) {
		return true
	}
	return false
}

// bitAnd handles masks that are contiguous runs of one bits.
func (ex *Exec) bitAnd(x, y *Term, t types.Type) *Term {
	if x.IsIntLit() && y.IsIntLit() {
		return BigLit(new(big.Int).And(x.Int, y.Int))
	}
	if x.IsIntLit() {
		x, y = y, x
	}
	if y.IsIntLit() && y.Int.Sign() >= 0 {
		m := y.Int
		if m.Sign() == 0 {
			return IntLit(0)
		}
		lo := int64(m.TrailingZeroBits())
		sh := new(big.Int).Rsh(m, uint(lo))
		// sh must be 2^k - 1
		k := int64(sh.BitLen())
		if new(big.Int).Add(sh, big.NewInt(1)).Cmp(pow2(k)) == 0 {
			ii, _ := intTypeInfo(t)
			if !ii.signed || true {
				// ((x div 2^lo) mod 2^k) * 2^lo   (x non-negative for unsigned types; for signed
				// two's complement the identity also holds with floor div / euclidean mod)
				return Mul(EMod(EDiv(x, BigLit(pow2(lo))), BigLit(pow2(k))), BigLit(pow2(lo)))
			}
		}
	}
	return App("bitand", SInt, x, y)
}

func (ex *Exec) doConvert(st *State, fr *Frame, in *ssa.Convert) Value {
	x := ex.val(st, fr, in.X)
	from, to := in.X.Type(), in.Type()
	_, fi := intTypeInfo(from)
	ti, tiOK := intTypeInfo(to)
	switch {
	case fi && tiOK:
		t := x.(*Term)
		if ti.bits == 64 {
			fromI, _ := intTypeInfo(from)
			if fromI.bits == 64 && fromI.signed != ti.signed {
				// int64 <-> uint64: value-preserving only when non-negative / in range
				ex.check(st, "overflow", in, And(Le(BigLit(ti.min()), t), Le(t, BigLit(ti.max()))), "64-bit signed/unsigned conversion out of range (mathematical integers)")
			}
			return t
		}
		return wrapInt(to, t)
	case isString(to):
		switch f := from.Underlying().(type) {
		case *types.Slice:
			// []byte -> string
			s := x.(*VSlice)
			str := ex.fresh("str", SStr)
			st.assume(Eq(App("slen", SInt, str), s.Len))
			k := Var("k!conv", SInt)
			h := st.heap("H.int", SHInt)
			st.assume(Forall([]*Term{k}, Implies(And(Le(IntLit(0), k), Lt(k, s.Len)),
				Eq(App("sat", SInt, str, k), Select(Select(h, s.Ref), Idx(s.Off, k))))))
			_ = f
			return str
		case *types.Basic:
			if fi {
				// string(rune)
				return App("str.fromrune", SStr, x.(*Term))
			}
		}
	case isString(from):
		if sl, ok := to.Underlying().(*types.Slice); ok {
			// string -> []byte / []rune
			if ii, ok := intTypeInfo(sl.Elem()); ok && ii.bits == 8 {
				str := x.(*Term)
				n := App("slen", SInt, str)
				ref := ex.allocRow(st, sl.Elem())
				h := st.heap("H.int", SHInt)
				row := ex.fresh("row", SArr)
				st.heaps["H.int"] = Store(h, ref, row)
				k := Var("k!conv", SInt)
				st.assume(Forall([]*Term{k}, Implies(And(Le(IntLit(0), k), Lt(k, n)), Eq(Select(row, k), App("sat", SInt, str, k)))))
				if c, ok := ex.strLitContent(str); ok {
					for i := 0; i < len(c) && i < 64; i++ {
						st.assume(Eq(Select(row, IntLit(int64(i))), IntLit(int64(c[i]))))
					}
					n = IntLit(int64(len(c)))
				}
				return &VSlice{Ref: ref, Off: IntLit(0), Len: n, Cap: n, Elem: sl.Elem()}
			}
		}
	case isFloat(to) || isFloat(from):
		if tiOK {
			return ex.symbolicValue(st, to, ex.fresh("fconv", SInt).Name, 0)
		}
		return &VOpaque{T: to, ID: ex.fresh("float", SInt)}
	}
	if _, ok := to.Underlying().(*types.Basic); ok && to.Underlying().(*types.Basic).Kind() == types.UnsafePointer {
		return &VOpaque{T: to, ID: ex.fresh("unsafe", SInt)}
	}
	ex.unsupported("conversion %s -> %s", from, to)
	return nil
}

func (ex *Exec) doIndexAddr(st *State, fr *Frame, in *ssa.IndexAddr) Value {
	x := ex.val(st, fr, in.X)
	idx := ex.val(st, fr, in.Index).(*Term)
	switch b := x.(type) {
	case *VSlice:
		ex.check(st, "index", in, And(Le(IntLit(0), idx), Lt(idx, b.Len)), "index out of range")
		return &VPtr{Nil: False, ElemRef: b.Ref, ElemIdx: Idx(b.Off, idx), ElemT: b.Elem, T: b.Elem}
	case *VPtr:
		// pointer to array
		at, ok := b.T.Underlying().(*types.Array)
		if !ok || b.ElemRef == nil {
			ex.unsupported("IndexAddr on %s", b.T)
		}
		ex.check(st, "nil", in, Not(b.Nil), "nil pointer dereference")
		ex.check(st, "index", in, And(Le(IntLit(0), idx), Lt(idx, IntLit(at.Len()))), "index out of range")
		return &VPtr{Nil: False, ElemRef: b.ElemRef, ElemIdx: idx, ElemT: at.Elem(), T: at.Elem()}
	}
	ex.unsupported("IndexAddr on %T", x)
	return nil
}

func (ex *Exec) doIndex(st *State, fr *Frame, in *ssa.Index) Value {
	x := ex.val(st, fr, in.X)
	idx := ex.val(st, fr, in.Index).(*Term)
	switch b := x.(type) {
	case *VSlice: // array value
		ex.check(st, "index", in, And(Le(IntLit(0), idx), Lt(idx, b.Len)), "index out of range")
		return ex.heapLoad(st, b.Elem, b.Ref, Idx(b.Off, idx))
	case *Term:
		if b.Sort == SStr {
			ex.check(st, "index", in, And(Le(IntLit(0), idx), Lt(idx, App("slen", SInt, b))), "string index out of range")
			return App("sat", SInt, b, idx)
		}
	}
	ex.unsupported("Index on %T", x)
	return nil
}

func (ex *Exec) doMakeSlice(st *State, fr *Frame, in *ssa.MakeSlice) Value {
	n := ex.val(st, fr, in.Len).(*Term)
	c := ex.val(st, fr, in.Cap).(*Term)
	ex.check(st, "makeslice", in, And(Le(IntLit(0), n), Le(n, c), Le(c, IntLit(1<<48))), "makeslice: len/cap out of range")
	et := in.Type().Underlying().(*types.Slice).Elem()
	ref := ex.allocRow(st, et)
	return &VSlice{Ref: ref, Off: IntLit(0), Len: n, Cap: c, Elem: et}
}

func (ex *Exec) doSlice(st *State, fr *Frame, in *ssa.Slice) Value {
	x := ex.val(st, fr, in.X)
	var lo, hi, max *Term
	if in.Low != nil {
		lo = ex.val(st, fr, in.Low).(*Term)
	} else {
		lo = IntLit(0)
	}
	if in.High != nil {
		hi = ex.val(st, fr, in.High).(*Term)
	}
	if in.Max != nil {
		max = ex.val(st, fr, in.Max).(*Term)
	}
	switch b := x.(type) {
	case *Term: // string
		n := App("slen", SInt, b)
		if hi == nil {
			hi = n
		}
		ex.check(st, "slice", in, And(Le(IntLit(0), lo), Le(lo, hi), Le(hi, n)), "slice bounds out of range (string)")
		return ex.strSub(st, b, lo, hi)
	case *VSlice:
		if hi == nil {
			hi = b.Len
		}
		capLimit := b.Cap
		if max != nil {
			ex.check(st, "slice", in, And(Le(IntLit(0), lo), Le(lo, hi), Le(hi, max), Le(max, b.Cap)), "slice bounds out of range")
			capLimit = max
		} else {
			ex.check(st, "slice", in, And(Le(IntLit(0), lo), Le(lo, hi), Le(hi, b.Cap)), "slice bounds out of range")
		}
		// slicing a nil slice gives a nil slice
		return &VSlice{Ref: b.Ref, Off: Add(b.Off, lo), Len: Sub(hi, lo), Cap: Sub(capLimit, lo), Elem: b.Elem}
	case *VPtr: // pointer to array
		at, ok := b.T.Underlying().(*types.Array)
		if !ok || b.ElemRef == nil {
			ex.unsupported("Slice on pointer to %s", b.T)
		}
		ex.check(st, "nil", in, Not(b.Nil), "nil pointer dereference")
		n := IntLit(at.Len())
		if hi == nil {
			hi = n
		}
		capLimit := n
		if max != nil {
			capLimit = max
		}
		ex.check(st, "slice", in, And(Le(IntLit(0), lo), Le(lo, hi), Le(hi, capLimit), Le(capLimit, n)), "slice bounds out of range")
		return &VSlice{Ref: b.ElemRef, Off: lo, Len: Sub(hi, lo), Cap: Sub(capLimit, lo), Elem: at.Elem()}
	}
	ex.unsupported("Slice on %T", x)
	return nil
}

// ---------------------------------------------------------------------------
// equality

func (ex *Exec) valuesEqual(st *State, t types.Type, a, b Value) *Term {
	switch x := a.(type) {
	case *Term:
		y, ok := b.(*Term)
		if !ok {
			ex.unsupported("comparison of %T with %T", a, b)
		}
		if x.Sort == SStr {
			return ex.strEq(st, x, y)
		}
		return Eq(x, y)
	case *VStruct:
		y := b.(*VStruct)
		conj := []*Term{}
		_, ftypes, model, _ := ex.structLayout(x.T)
		for i := range x.Fields {
			var ft types.Type
			if model == nil {
				ft = ftypes[i]
			}
			conj = append(conj, ex.valuesEqual(st, ft, x.Fields[i], y.Fields[i]))
		}
		return And(conj...)
	case *VPtr:
		y := b.(*VPtr)
		if x.Nil.IsTrue() {
			return y.Nil
		}
		if y.Nil.IsTrue() {
			return x.Nil
		}
		if x.Obj != nil && y.Obj != nil {
			if x.Obj == y.Obj && pathEq(x.Path, y.Path) {
				return Or(And(x.Nil, y.Nil), And(Not(x.Nil), Not(y.Nil)))
			}
			return And(x.Nil, y.Nil)
		}
		ex.unsupported("pointer comparison")
	case *VIface:
		if _, ok := b.(*VRType); ok {
			return Neq(x.Tag, IntLit(0)) // only nil vs type comparisons reach here
		}
		y := b.(*VIface)
		return ex.ifaceEq(st, x, y)
	case *VSlice:
		y := b.(*VSlice)
		// only comparison with nil is legal Go
		if y.Ref.IsIntLit() && y.Len.IsIntLit() {
			return st.refIsNil(x.Ref)
		}
		if x.Ref.IsIntLit() && x.Len.IsIntLit() {
			return st.refIsNil(y.Ref)
		}
	case *VMap:
		y := b.(*VMap)
		if y.Ref.IsIntLit() {
			return st.refIsNil(x.Ref)
		}
		if x.Ref.IsIntLit() {
			return st.refIsNil(y.Ref)
		}
	case *VFunc:
		y := b.(*VFunc)
		if y.Nil != nil && y.Nil.IsTrue() {
			return x.Nil
		}
		if x.Nil != nil && x.Nil.IsTrue() {
			return y.Nil
		}
	case *VOpaque:
		y := b.(*VOpaque)
		return Eq(x.ID, y.ID)
	case *VRType:
		switch y := b.(type) {
		case *VRType:
			return ex.rtypeEq(x, y)
		case *VIface:
			return False // nil interface vs a type
		}
	}
	ex.unsupported("comparison of %T values", a)
	return nil
}

func pathEq(a, b []int) bool {
	if len(a) != len(b) {
		return false
	}
	for i := range a {
		if a[i] != b[i] {
			return false
		}
	}
	return true
}

func (ex *Exec) ifaceEq(st *State, x, y *VIface) *Term {
	if y.Tag.IsIntLit() && y.Tag.Int.Sign() == 0 {
		return Eq(x.Tag, IntLit(0))
	}
	if x.Tag.IsIntLit() && x.Tag.Int.Sign() == 0 {
		return Eq(y.Tag, IntLit(0))
	}
	// both concrete single alternatives
	if len(x.Alts) == 1 && len(y.Alts) == 1 && x.Tag.IsIntLit() && y.Tag.IsIntLit() {
		if !types.Identical(x.Alts[0].T, y.Alts[0].T) {
			return False
		}
		if rx, ok := x.Alts[0].Val.(*VRType); ok {
			ry := y.Alts[0].Val.(*VRType)
			return ex.rtypeEq(rx, ry)
		}
		return ex.valuesEqual(st, x.Alts[0].T, x.Alts[0].Val, y.Alts[0].Val)
	}
	if len(x.Alts) == 0 && len(y.Alts) == 0 && x.Pay != nil && y.Pay != nil {
		// opaque identities (errors): equal tags and payloads
		return And(Eq(x.Tag, y.Tag), Eq(x.Pay, y.Pay))
	}
	ex.unsupported("interface comparison")
	return nil
}

// ---------------------------------------------------------------------------
// type assertions

func (ex *Exec) doTypeAssert(st *State, fr *Frame, in *ssa.TypeAssert) Value {
	x := ex.val(st, fr, in.X).(*VIface)
	target := in.AssertedType
	_, targetIsIface := target.Underlying().(*types.Interface)
	// resolve alternatives
	x, alt := ex.resolveIface(st, x, in)
	var ok *Term
	var val Value
	if alt == nil {
		if x.Tag.IsIntLit() && x.Tag.Int.Sign() == 0 {
			ok = False
		} else if targetIsIface {
			ex.unsupported("type assertion of a symbolic interface to interface type %s", target)
		} else {
			// fully symbolic interface asserted to a concrete type
			id := IntLit(int64(ex.typeID(target)))
			ok = Eq(x.Tag, id)
			val = ex.unboxSymbolic(st, target, x.Pay)
		}
	} else {
		if targetIsIface {
			ms := ex.Prog.MethodSets.MethodSet(alt.T)
			impl := true
			ti := target.Underlying().(*types.Interface)
			for i := 0; i < ti.NumMethods(); i++ {
				m := ti.Method(i)
				if ms.Lookup(m.Pkg(), m.Name()) == nil {
					impl = false
				}
			}
			ok = BoolLit(impl)
			val = x
			if len(x.Alts) > 1 {
				val = ex.concreteIface(alt.T, alt.Val)
			}
		} else {
			ok = BoolLit(types.Identical(alt.T, target))
			val = alt.Val
		}
	}
	if in.CommaOk {
		if val == nil || ok.IsFalse() {
			val = ex.zeroValue(target)
		}
		if !ok.IsBoolLit() {
			// symbolic: value only meaningful when ok
			dec := ex.decide(st, ok)
			if !dec {
				return &VTuple{Vals: []Value{ex.zeroValue(target), False}}
			}
			return &VTuple{Vals: []Value{val, True}}
		}
		return &VTuple{Vals: []Value{val, ok}}
	}
	ex.check(st, "assert", in, ok, fmt.Sprintf("type assertion to %s may fail", target))
	if val == nil {
		val = ex.zeroValue(target)
	}
	return val
}

// resolveIface picks the alternative of a multi-alternative interface value on this path.
func (ex *Exec) resolveIface(st *State, x *VIface, instr ssa.Instruction) (*VIface, *IfaceAlt) {
	if len(x.Alts) == 0 {
		return x, nil
	}
	if len(x.Alts) == 1 && x.Tag.IsIntLit() {
		if x.Tag.Int.Sign() == 0 {
			return x, nil
		}
		return x, &x.Alts[0]
	}
	if i, ok := st.ifaceRes[x]; ok {
		if i < 0 {
			return nilIface(), nil
		}
		return x, &x.Alts[i]
	}
	for i, a := range x.Alts {
		if st.knows(Eq(x.Tag, IntLit(int64(ex.typeID(a.T))))) {
			return x, &x.Alts[i]
		}
	}
	var states []*State
	for i, a := range x.Alts {
		s := st.clone()
		s.ifaceRes[x] = i
		s.assume(Eq(x.Tag, IntLit(int64(ex.typeID(a.T)))))
		states = append(states, s)
	}
	s := st.clone()
	s.ifaceRes[x] = -1
	s.assume(Eq(x.Tag, IntLit(0)))
	states = append(states, s)
	panic(splitRequest{states})
}

// unboxSymbolic: the payload of a fully symbolic interface viewed at type t.
func (ex *Exec) unboxSymbolic(st *State, t types.Type, pay *Term) Value {
	if pay == nil {
		pay = ex.fresh("pay", SInt)
	}
	leaves, err := ex.flattenType(t)
	if err != nil {
		ex.unsupported("unbox %s: %v", t, err)
	}
	vals := make([]*Term, len(leaves))
	for i, lf := range leaves {
		vals[i] = App("unbox["+typeKey(t)+"]"+lf.Path, lf.Sort, pay)
		if lf.T != nil && lf.Sort == SInt {
			st.assume(rangeFact(lf.T, vals[i]))
		}
	}
	pos := 0
	return ex.unflatten(st, t, vals, &pos)
}

// refIsNil: ref == 0, decided syntactically for refs allocated on this path.
func (st *State) refIsNil(ref *Term) *Term {
	for _, fr := range st.freshRefs {
		if Equal(fr, ref) {
			return False
		}
	}
	return Eq(ref, IntLit(0))
}

// doSelect: a select statement picks any of its cases (a blocking select: one of them; a non-blocking one may
// also pick none, index -1); received values are arbitrary, sends are recorded as ghost events.
func (ex *Exec) doSelect(st *State, fr *Frame, in *ssa.Select) Value {
	if in.Blocking {
		ex.blockCheck(st, in, "select that may block", False)
	}
	site := fmt.Sprintf("select!%s!%d", ex.siteName(st, in, "select"), st.top().visits[st.top().block])
	idx := Var(site+"!idx", SInt)
	lo := int64(0)
	if !in.Blocking {
		lo = -1
	}
	st.assume(And(Le(IntLit(lo), idx), Lt(idx, IntLit(int64(len(in.States))))))
	vals := []Value{idx, Var(site+"!ok", SBool)}
	for i, s := range in.States {
		if s.Dir == types.RecvOnly {
			vals = append(vals, ex.symbolicValue(st, s.Chan.Type().Underlying().(*types.Chan).Elem(), fmt.Sprintf("%s!recv%d", site, i), 0))
		} else {
			// the send happens only if this case is chosen: recorded when the index is decided
			if ex.decide(st, Eq(idx, IntLit(int64(i)))) {
				x := ex.val(st, fr, s.Send)
				if g, ok := st.ghost["$sends"].(*VTuple); ok {
					st.ghost["$sends"] = &VTuple{Vals: append(append([]Value(nil), g.Vals...), x)}
				} else {
					st.ghost["$sends"] = &VTuple{Vals: []Value{x}}
				}
			}
		}
	}
	return &VTuple{Vals: vals}
}
