package vc

import (
	"fmt"
	"go/ast"
	"go/token"
	"go/types"
	"os"
	"sort"
	"strings"

	"golang.org/x/tools/go/ssa"
)

// ---------------------------------------------------------------------------
// block entry: loop cut points and unrolling

var loopCache = map[*ssa.Function]map[*ssa.BasicBlock]*loopInfo{}

func loopsOf(fn *ssa.Function) map[*ssa.BasicBlock]*loopInfo {
	if l, ok := loopCache[fn]; ok {
		return l
	}
	l := findLoops(fn)
	loopCache[fn] = l
	return l
}

func (ex *Exec) loopSpecFor(st *State, fr *Frame, li *loopInfo) *LoopSpec {
	var ct *Contract
	if len(st.frames) != 1 {
		// a callee executed in place: its loops are specified by its own contract when that carries
		// the attribute `inline` (body used at call sites, loop invariants from the contract)
		c, ok := ex.Contracts[ex.FuncKey(fr.fn)]
		if !ok || !c.hasAttr("inline") {
			return nil
		}
		ct = c
	} else {
		ct = ex.cur.contract
	}
	if ct == nil {
		return nil
	}
	// Loop specifications are keyed by the ordinal of the loop in its function. A NEW loop in front of a
	// specified one (one that can simply be unrolled, or that needs no invariant) would shift the ordinals:
	// when the function has more loops than specifications and the specification that falls on a loop talks
	// about a source local that does not exist yet at that loop, the loop is taken to be a new one without a
	// specification, and the specifications move on to the following loops.
	nLoops := len(loopsOf(fr.fn))
	if fr.loopShift == nil {
		fr.loopShift = map[int]bool{}
	}
	shift := 0
	for o := range fr.loopShift {
		if o < li.ordinal {
			shift++
		}
	}
	spec := ct.Loops[li.ordinal-shift]
	if spec != nil && nLoops > len(ct.Loops) && !fr.loopShift[li.ordinal] && !ex.localsLive(spec, fr) {
		fr.loopShift[li.ordinal] = true
		return nil
	}
	if fr.loopShift[li.ordinal] {
		return nil
	}
	return spec
}

// specOrdinal: the ordinal under which the loop's specification is written (obligation names follow it).
func (ex *Exec) specOrdinal(fr *Frame, li *loopInfo) int {
	shift := 0
	for o := range fr.loopShift {
		if o < li.ordinal {
			shift++
		}
	}
	return li.ordinal - shift
}

// localsLive: every source local of the function that the loop specification mentions has been declared
// by the time this loop is reached.
func (ex *Exec) localsLive(spec *LoopSpec, fr *Frame) bool {
	names := map[string]bool{}
	for _, inv := range spec.Invariants {
		exprIdents(inv.E, names)
	}
	if spec.Decreases != nil {
		exprIdents(spec.Decreases.E, names)
	}
	for _, b := range fr.fn.Blocks {
		for _, in := range b.Instrs {
			if a, ok := in.(*ssa.Alloc); ok && a.Comment != "" && names[a.Comment] {
				if _, live := fr.regs[a]; live {
					names[a.Comment] = false
				}
			}
		}
	}
	declared := map[string]bool{}
	for _, b := range fr.fn.Blocks {
		for _, in := range b.Instrs {
			if a, ok := in.(*ssa.Alloc); ok && a.Comment != "" {
				declared[a.Comment] = true
			}
		}
	}
	for n, pending := range names {
		if pending && declared[n] {
			return false
		}
	}
	return true
}

func exprIdents(e Expr, out map[string]bool) {
	switch x := e.(type) {
	case *EIdent:
		out[x.Name] = true
	case *EBin:
		exprIdents(x.L, out)
		exprIdents(x.R, out)
	case *EUn:
		exprIdents(x.X, out)
	case *ECall:
		for _, a := range x.Args {
			exprIdents(a, out)
		}
	case *EIndex:
		exprIdents(x.X, out)
		exprIdents(x.I, out)
	case *ESlice:
		exprIdents(x.X, out)
		exprIdents(x.Lo, out)
		exprIdents(x.Hi, out)
	case *EField:
		exprIdents(x.X, out)
	case *EQuant:
		exprIdents(x.Body, out)
	case *EOld:
		exprIdents(x.X, out)
	case *ECond:
		exprIdents(x.C, out)
		exprIdents(x.A, out)
		exprIdents(x.B, out)
	}
}

// loopEnv: the environment in which the loop invariants of frame fr are evaluated.
func (ex *Exec) loopEnv(st *State, fr *Frame, lc *loopCtx) *Env {
	if len(st.frames) == 1 || fr == st.frames[0] {
		return ex.contractEnv(st, lc)
	}
	env := &Env{vars: map[string]Value{}, lc: lc, old: st.entry, fr: fr}
	if ct, ok := ex.Contracts[ex.FuncKey(fr.fn)]; ok {
		env.defs = ct.Defines
		env.pkg = ct.Pkg
		names := ex.paramNames(fr.fn, ct)
		for i, p := range fr.fn.Params {
			if v, ok := fr.regs[p]; ok && i < len(names) {
				env.vars[names[i]] = v
			}
		}
	}
	return env
}

// loopLabel: obligation label of a loop (prefixed with the callee's name for loops of inlined callees).
func (ex *Exec) loopLabel(st *State, fr *Frame, ordinal int) string {
	if len(st.frames) == 1 || fr == st.frames[0] {
		return fmt.Sprintf("loop%d", ordinal)
	}
	return fmt.Sprintf("%s.loop%d", shortName(ex.FuncKey(fr.fn)), ordinal)
}

// enterBlock is called after a jump; returns false if the path ends here.
func (ex *Exec) enterBlock(st *State) bool {
	fr := st.top()
	// leave loops we jumped out of
	for len(fr.loops) > 0 && !fr.loops[len(fr.loops)-1].info.body[fr.block] {
		fr.loops = fr.loops[:len(fr.loops)-1]
	}
	li := loopsOf(fr.fn)[fr.block]
	if li == nil {
		ex.maybePark(st, fr)
		return true
	}
	spec := ex.loopSpecFor(st, fr, li)
	if spec == nil {
		fr.visits[fr.block]++
		if fr.visits[fr.block] > ex.MaxUnroll {
			ex.unsupported("loop %d of %s has no invariant and does not unroll within %d iterations", li.ordinal, ex.FuncKey(fr.fn), ex.MaxUnroll)
		}
		ex.maybePark(st, fr)
		return true
	}
	// evaluate head phis along the incoming edge
	ex.evalHeadPhis(st, fr)
	if len(fr.loops) > 0 && fr.loops[len(fr.loops)-1].head == fr.block {
		// back edge: preservation
		lc := fr.loops[len(fr.loops)-1]
		for _, inv := range spec.Invariants {
			g := ex.evalBool(st, inv.E, ex.loopEnv(st, fr, lc), inv)
			ex.oblige(st, "loop.preserve", fmt.Sprintf("%s.preserve:%s", ex.loopLabel(st, fr, ex.specOrdinal(fr, li)), inv.Label), g, fr.block.Instrs[0].Pos(), inv.Src)
		}
		if spec.Decreases != nil {
			m1 := ex.evalTerm(st, spec.Decreases.E, ex.loopEnv(st, fr, lc), spec.Decreases)
			ex.oblige(st, "decreases", fmt.Sprintf("%s.decreases", ex.loopLabel(st, fr, ex.specOrdinal(fr, li))), And(Le(IntLit(0), lc.measure0), Lt(m1, lc.measure0)), fr.block.Instrs[0].Pos(), spec.Decreases.Src)
		}
		return false
	}
	// entry
	lc := &loopCtx{head: fr.block, info: li, spec: spec, ordinal: li.ordinal}
	for _, inv := range spec.Invariants {
		g := ex.evalBool(st, inv.E, ex.loopEnv(st, fr, lc), inv)
		ex.oblige(st, "loop.entry", fmt.Sprintf("%s.entry:%s", ex.loopLabel(st, fr, ex.specOrdinal(fr, li)), inv.Label), g, fr.block.Instrs[0].Pos(), inv.Src)
	}
	ex.havocLoop(st, fr, li)
	for _, inv := range spec.Invariants {
		st.assume(ex.evalBool(st, inv.E, ex.loopEnv(st, fr, lc), inv))
	}
	if spec.Decreases != nil {
		lc.measure0 = ex.evalTerm(st, spec.Decreases.E, ex.loopEnv(st, fr, lc), spec.Decreases)
	}
	fr.loops = append(fr.loops, lc)
	fr.prev = nil // head phis keep their havocked values
	// skip phi instructions (already evaluated)
	for fr.idx < len(fr.block.Instrs) {
		if _, ok := fr.block.Instrs[fr.idx].(*ssa.Phi); ok {
			fr.idx++
		} else {
			break
		}
	}
	return true
}

// maybePark: at a join block the state is parked so that it can be merged with the
// other paths reaching the same point.
func (ex *Exec) maybePark(st *State, fr *Frame) {
	if !ex.shouldPark(st, fr) {
		return
	}
	ex.evalHeadPhis(st, fr)
	for fr.idx < len(fr.block.Instrs) {
		if _, ok := fr.block.Instrs[fr.idx].(*ssa.Phi); ok {
			fr.idx++
		} else {
			break
		}
	}
	panic(parkRequest{})
}

func (ex *Exec) evalHeadPhis(st *State, fr *Frame) {
	vals := map[*ssa.Phi]Value{}
	for _, in := range fr.block.Instrs {
		phi, ok := in.(*ssa.Phi)
		if !ok {
			break
		}
		for i, p := range fr.block.Preds {
			if p == fr.prev {
				vals[phi] = ex.val(st, fr, phi.Edges[i])
			}
		}
	}
	for k, v := range vals {
		fr.regs[k] = v
	}
}

func allocRoot(v ssa.Value) *ssa.Alloc {
	for {
		switch x := v.(type) {
		case *ssa.Alloc:
			return x
		case *ssa.FieldAddr:
			v = x.X
		case *ssa.IndexAddr:
			v = x.X
		default:
			return nil
		}
	}
}

func (ex *Exec) havocLoop(st *State, fr *Frame, li *loopInfo) {
	modAllocs := map[*ssa.Alloc]bool{}
	modFree := map[*ssa.FreeVar]bool{}
	iters := map[ssa.Value]bool{}
	heapWrite := false
	otherStore := false
	for b := range li.body {
		for _, in := range b.Instrs {
			switch x := in.(type) {
			case *ssa.Store:
				if a := allocRoot(x.Addr); a != nil {
					modAllocs[a] = true
					if _, isArr := a.Type().(*types.Pointer).Elem().Underlying().(*types.Array); isArr {
						heapWrite = true
					}
				} else if fv, ok := x.Addr.(*ssa.FreeVar); ok {
					// a store to a captured variable: that cell only
					modFree[fv] = true
				} else {
					if ia, ok := x.Addr.(*ssa.IndexAddr); ok {
						_ = ia
						heapWrite = true
					} else {
						otherStore = true
						heapWrite = true
					}
				}
			case *ssa.Next:
				iters[x.Iter] = true
			case *ssa.MapUpdate:
				heapWrite = true
			case ssa.CallInstruction:
				c := x.Common()
				heapWrite = true
				for _, a := range c.Args {
					if r := allocRoot(a); r != nil {
						modAllocs[r] = true
					}
				}
				if !c.IsInvoke() {
					if r := allocRoot(c.Value); r != nil {
						modAllocs[r] = true
					}
				}
				if mc, ok := c.Value.(*ssa.MakeClosure); ok {
					for _, bnd := range mc.Bindings {
						if r := allocRoot(bnd); r != nil {
							modAllocs[r] = true
						}
					}
				}
			case *ssa.MakeClosure:
				for _, bnd := range x.Bindings {
					if r := allocRoot(bnd); r != nil {
						modAllocs[r] = true
					}
				}
			}
		}
	}
	// ghost state: a call in the body may change any ghost variable (through the callee's contract);
	// what is known about them at the loop head must come from the invariants
	modGhost := map[string]bool{}
	for b := range li.body {
		for _, in := range b.Instrs {
			if ci, ok := in.(ssa.CallInstruction); ok {
				ex.ghostsOfCall(ci.Common(), modGhost, map[*ssa.Function]bool{})
			}
		}
	}
	for _, n := range ex.Spec.GhostOrder {
		if !modGhost[n] && !modGhost["*"] {
			continue
		}
		if g, ok := st.ghost[n].(*Term); ok {
			st.ghost[n] = ex.fresh(n, g.Sort)
		}
	}
	// channel events (sends, closes) inside the loop: their number is no longer known to the contract
	// builtins chansends() / chansent() / chancloses()
	for b := range li.body {
		if ex.hasChanEvents(b.Instrs, map[*ssa.Function]bool{}) {
			st.ghost["$chanEventsUnknown"] = True
			break
		}
	}
	// local cells
	// (fixed orders below: fresh names are numbered in the order they are made, and the queries of two runs
	// on the same tree should be the same text)
	var allocList []*ssa.Alloc
	for a := range modAllocs {
		allocList = append(allocList, a)
	}
	sort.Slice(allocList, func(i, j int) bool {
		if allocList[i].Pos() != allocList[j].Pos() {
			return allocList[i].Pos() < allocList[j].Pos()
		}
		return allocList[i].Name() < allocList[j].Name()
	})
	for _, a := range allocList {
		if li.body[a.Block()] {
			continue // allocated inside the loop: fresh per iteration
		}
		pv, ok := fr.regs[a]
		if !ok {
			continue
		}
		p := pv.(*VPtr)
		if p.Obj == nil {
			continue // heap array: handled with the rows below
		}
		name := a.Comment
		if name == "" {
			name = a.Name()
		}
		st.mem[p.Obj] = ex.havocValue(st, p.Obj.T, st.mem[p.Obj], name)
	}
	var freeList []*ssa.FreeVar
	for fv := range modFree {
		freeList = append(freeList, fv)
	}
	sort.Slice(freeList, func(i, j int) bool { return freeList[i].Name() < freeList[j].Name() })
	for _, fv := range freeList {
		if p, ok := fr.regs[fv].(*VPtr); ok && p.Obj != nil {
			st.mem[p.Obj] = ex.havocValue(st, p.Obj.T, st.mem[p.Obj], fv.Name())
		}
	}
	if otherStore {
		var objList []*Object
		for obj := range st.mem {
			objList = append(objList, obj)
		}
		sort.Slice(objList, func(i, j int) bool { return objList[i].ID < objList[j].ID })
		for _, obj := range objList {
			v := st.mem[obj]
			// objects of library struct types (the internals of a net.UDPConn ...) cannot be written by a store
			// in the module's code; library calls on them are modelled by their contracts
			if n, ok := obj.T.(*types.Named); ok && n.Obj().Pkg() != nil && !ex.inModule(n.Obj().Pkg()) {
				if _, isStruct := n.Underlying().(*types.Struct); isStruct {
					if _, isModel := modelTypes[typeKey(n)]; !isModel {
						continue
					}
				}
			}
			if !obj.Fresh {
				st.mem[obj] = ex.havocValue(st, obj.T, v, obj.Name)
			}
		}
	}
	// iterators
	for it := range iters {
		if iv, ok := fr.regs[it].(*VIter); ok && iv.Cell != nil {
			st.mem[iv.Cell] = ex.havocValue(st, iv.Cell.T, st.mem[iv.Cell], "$pos")
			if iv.Str != nil {
				pos := st.mem[iv.Cell].(*Term)
				st.assume(And(Le(IntLit(0), pos), Le(pos, App("slen", SInt, iv.Str))))
			}
		}
	}
	// head phis
	for _, in := range fr.block.Instrs {
		phi, ok := in.(*ssa.Phi)
		if !ok {
			break
		}
		fr.regs[phi] = ex.havocValue(st, phi.Type(), fr.regs[phi], "$"+phi.Comment)
	}
	// heap rows this function may write: fresh allocations and the modifies clause
	if heapWrite {
		refs := append([]*Term(nil), st.freshRefs...)
		refs = append(refs, ex.modifiesRefs(st)...)
		for _, key := range sortedKeys(st.heaps) {
			h := st.heaps[key]
			nh := h
			for _, r := range refs {
				nh = Store(nh, r, ex.fresh("row", h.Sort.Elem()))
			}
			st.heaps[key] = nh
		}
		// allocations inside the loop body
		na := ex.fresh("alloc", SInt)
		st.assume(Le(st.alloc, na))
		st.alloc = na
	}
}

// ghostsOfCall collects the ghost variables a call may modify: the `modifies` clauses of the callee's
// contract (static callee or interface method), transitively through callees that are executed in place.
// "*" = unknown (every ghost variable).
func (ex *Exec) ghostsOfCall(c *ssa.CallCommon, out map[string]bool, seen map[*ssa.Function]bool) {
	addContract := func(ct *Contract) {
		for _, m := range ct.Modifies {
			if qn, ok := QualifiedName(m.E); ok {
				if _, isGhost := ex.Spec.Ghosts[qn]; isGhost {
					out[qn] = true
				}
			}
		}
	}
	if c.IsInvoke() {
		if n, ok := c.Value.Type().(*types.Named); ok && n.Obj().Pkg() != nil {
			if ct, ok := ex.Contracts[n.Obj().Pkg().Path()+"."+n.Obj().Name()+"."+c.Method.Name()]; ok {
				addContract(ct)
			}
		}
		return // an interface method without a contract is havocked on its arguments only
	}
	var callee *ssa.Function
	switch v := c.Value.(type) {
	case *ssa.Function:
		callee = v
	case *ssa.MakeClosure:
		callee, _ = v.Fn.(*ssa.Function)
	}
	if callee == nil {
		return // function values: symbolic callbacks are pure predicates; others are resolved when called
	}
	if seen[callee] {
		return
	}
	seen[callee] = true
	key := ex.FuncKey(callee)
	if ct, ok := ex.Contracts[key]; ok && !ct.hasAttr("inline") {
		addContract(ct)
		return
	}
	if !strings.HasPrefix(key, ex.ModulePath) || callee.Blocks == nil {
		return // library models do not touch the specification's ghost variables
	}
	for _, b := range callee.Blocks {
		for _, in := range b.Instrs {
			if ci, ok := in.(ssa.CallInstruction); ok {
				ex.ghostsOfCall(ci.Common(), out, seen)
			}
		}
	}
	for _, a := range callee.AnonFuncs {
		for _, b := range a.Blocks {
			for _, in := range b.Instrs {
				if ci, ok := in.(ssa.CallInstruction); ok {
					ex.ghostsOfCall(ci.Common(), out, seen)
				}
			}
		}
	}
}

// ---------------------------------------------------------------------------
// return / panic / defers

func (ex *Exec) doReturn(st *State, fr *Frame, res []Value, in *ssa.Return) bool {
	if len(st.frames) == 1 {
		st.results = res
		ex.cur.reachedReturn++
		ex.checkEnsures(st, in)
		return false
	}
	// pop frame, deliver result to caller
	st.frames = st.frames[:len(st.frames)-1]
	caller := st.top()
	ex.deliver(st, caller, res)
	return true
}

// deliver assigns call results to the pending call instruction of the frame and advances it.
func (ex *Exec) deliver(st *State, caller *Frame, res []Value) {
	if caller.runningDefers {
		// result of a deferred call is discarded; continue running defers
		return
	}
	instr := caller.block.Instrs[caller.idx]
	if v, ok := instr.(ssa.Value); ok {
		switch len(res) {
		case 0:
			caller.regs[v] = &VTuple{}
		case 1:
			caller.regs[v] = res[0]
		default:
			caller.regs[v] = &VTuple{Vals: res}
		}
	}
	caller.idx++
}

// libPanic: a library call that panics on this path: the obligation says the path is
// unreachable; the path ends here.
func (ex *Exec) libPanic(st *State, instr ssa.Instruction, name, detail string) {
	pos := token.NoPos
	if instr != nil {
		pos = instr.Pos()
	}
	ex.oblige(st, "panic", name, False, pos, detail)
	panic(pathEnd{detail})
}

func (ex *Exec) doPanic(st *State, fr *Frame, in *ssa.Panic) bool {
	// an explicit panic: allowed only if the contract of the function under verification says so
	if ex.cur.contract != nil && ex.cur.contract.MayPanic && (len(st.frames) == 1) {
		return false
	}
	name := fmt.Sprintf("panic@%s", ex.siteName(st, in, "panic"))
	ex.oblige(st, "panic", name, False, in.Pos(), "explicit panic reachable")
	return false
}

func (ex *Exec) doRunDefers(st *State, fr *Frame, in *ssa.RunDefers) bool {
	if len(fr.defers) == 0 {
		fr.runningDefers = false
		fr.idx++
		return true
	}
	d := fr.defers[len(fr.defers)-1]
	fr.defers = fr.defers[:len(fr.defers)-1]
	fr.runningDefers = true
	// execute the deferred call; when it returns we come back to this RunDefers instruction
	cont := ex.invoke(st, fr, d.inst, d.call, d.fn, d.args, true)
	return cont
}

func (ex *Exec) doGo(st *State, fr *Frame, in *ssa.Go) {
	// spawn and forget: every local captured by the goroutine becomes volatile.
	c := in.Common()
	ex.cur.libCalls["go statement (goroutine body not part of this proof)"] = true
	mark := func(v ssa.Value) {
		if mc, ok := v.(*ssa.MakeClosure); ok {
			for _, b := range mc.Bindings {
				if pv, ok := fr.regs[b].(*VPtr); ok && pv.Obj != nil {
					st.volatile(pv.Obj)
				}
			}
		}
	}
	// ghost event: one more goroutine started
	if g, ok := st.ghost["go.started"].(*Term); ok {
		st.ghost["go.started"] = Add(g, IntLit(1))
	}
	// a body under contract: its preconditions are obligations of the go statement (the body is verified
	// against its contract on its own, as a goroutine body)
	if mc, ok := c.Value.(*ssa.MakeClosure); ok && len(c.Args) == 0 {
		if callee, ok := mc.Fn.(*ssa.Function); ok {
			if ct, ok := ex.Contracts[ex.FuncKey(callee)]; ok && len(ct.Requires) > 0 {
				ex.cur.contractsUsed[ex.FuncKey(callee)] = true
				env := &Env{vars: map[string]Value{}, defs: ct.Defines, pkg: ct.Pkg}
				for i, fv := range callee.FreeVars {
					if i < len(mc.Bindings) {
						bv := ex.val(st, fr, mc.Bindings[i])
						if p, ok := bv.(*VPtr); ok && p.Obj != nil {
							bv = ex.specLoad(st, p)
						}
						env.vars[fv.Name()] = bv
					}
				}
				pre := st.clone()
				pre.frames = nil
				env.old = pre
				for _, rq := range ct.Requires {
					ex.oblige(st, "requires", fmt.Sprintf("requires:go %s.%s@%s", shortName(ct.Key()), rq.Label, ex.siteName(st, in, "go")), ex.evalBool(st, rq.E, env, rq), in.Pos(), rq.Src)
				}
			}
		}
	}
	mark(c.Value)
	for _, a := range c.Args {
		mark(a)
	}
}

// blockCheck: in a goroutine body that has to end promptly (contract attribute `goroutine`), an operation
// that may block for ever is an obligation: a channel send needs a free buffer slot that is known to exist.
func (ex *Exec) blockCheck(st *State, instr ssa.Instruction, what string, ok *Term) {
	if ex.cur == nil || ex.cur.contract == nil || !ex.cur.contract.hasAttr("goroutine") {
		return
	}
	ex.check(st, "block", instr, ok, what+" in a goroutine that has to end with its call")
}

var volatileObjs = map[*Object]bool{}

func (st *State) volatile(o *Object) { volatileObjs[o] = true }

func (ex *Exec) doSend(st *State, fr *Frame, in *ssa.Send) {
	// ghost event: record the send
	x := ex.val(st, fr, in.X)
	if ch, ok := ex.val(st, fr, in.Chan).(*VOpaque); ok && ch.ID != nil {
		nsent := 0
		if g, ok := st.ghost["$sends"].(*VTuple); ok {
			nsent = len(g.Vals)
		}
		ex.blockCheck(st, in, "channel send that may block", Gt(App("chan.cap", SInt, ch.ID), IntLit(int64(nsent))))
	} else {
		ex.blockCheck(st, in, "channel send that may block", False)
	}
	n := 0
	if g, ok := st.ghost["$sends"]; ok {
		n = len(g.(*VTuple).Vals)
		st.ghost["$sends"] = &VTuple{Vals: append(append([]Value(nil), g.(*VTuple).Vals...), x)}
	} else {
		st.ghost["$sends"] = &VTuple{Vals: []Value{x}}
	}
	_ = n
}

// ---------------------------------------------------------------------------
// range / next

func (ex *Exec) doRange(st *State, fr *Frame, in *ssa.Range) Value {
	x := ex.val(st, fr, in.X)
	switch v := x.(type) {
	case *Term:
		cell := ex.newObject("$pos", types.Typ[types.Int], true)
		st.mem[cell] = IntLit(0)
		return &VIter{Str: v, Cell: cell}
	case *VMap:
		cell := ex.newObject("$visited", types.Typ[types.Int], true)
		st.mem[cell] = IntLit(0)
		return &VIter{Map: v, Cell: cell}
	}
	ex.unsupported("range over %T", x)
	return nil
}

func (ex *Exec) doNext(st *State, fr *Frame, in *ssa.Next) Value {
	it := ex.val(st, fr, in.Iter).(*VIter)
	if it.Str != nil {
		pos := st.mem[it.Cell].(*Term)
		n := App("slen", SInt, it.Str)
		ok := Lt(pos, n)
		if !ex.decide(st, ok) {
			return &VTuple{Vals: []Value{False, IntLit(0), IntLit(0)}}
		}
		c := App("sat", SInt, it.Str, pos)
		r := App("utf8.rune", SInt, it.Str, pos)
		w := App("utf8.width", SInt, it.Str, pos)
		if content, isLit := ex.strLitContent(it.Str); isLit {
			if p, ok := pos.Int64(); ok && int(p) < len(content) && content[p] < 0x80 {
				r, w = IntLit(int64(content[p])), IntLit(1)
			}
		}
		st.assume(Implies(Lt(c, IntLit(128)), And(Eq(r, c), Eq(w, IntLit(1)))))
		st.assume(Implies(Ge(c, IntLit(128)), And(Ge(r, IntLit(128)), Le(r, IntLit(0x10ffff)), Le(IntLit(1), w), Le(w, IntLit(4)))))
		st.assume(Le(Add(pos, w), n))
		st.mem[it.Cell] = Add(pos, w)
		return &VTuple{Vals: []Value{True, pos, r}}
	}
	return ex.mapNext(st, fr, in, it)
}

// ---------------------------------------------------------------------------
// strings

func (ex *Exec) strEq(st *State, a, b *Term) *Term {
	if Equal(a, b) {
		return True
	}
	ca, oka := ex.strLitContent(a)
	cb, okb := ex.strLitContent(b)
	if oka && okb {
		return BoolLit(ca == cb)
	}
	if oka {
		a, b, cb, okb = b, a, ca, true
	}
	if okb {
		conj := []*Term{Eq(App("slen", SInt, a), IntLit(int64(len(cb))))}
		for i := 0; i < len(cb); i++ {
			conj = append(conj, Eq(App("sat", SInt, a, IntLit(int64(i))), IntLit(int64(cb[i]))))
		}
		return And(conj...)
	}
	return App("streq", SBool, a, b)
}

func (ex *Exec) strConcat(st *State, a, b *Term) *Term {
	if ca, ok := ex.strLitContent(a); ok {
		if cb, ok := ex.strLitContent(b); ok {
			return ex.strLit(ca + cb)
		}
		if ca == "" {
			return b
		}
	}
	if cb, ok := ex.strLitContent(b); ok && cb == "" {
		return a
	}
	// both lengths known on this path: a string of known length with pointwise contents
	if na, oka := ex.knownStrLen(st, a); oka {
		if nb, okb := ex.knownStrLen(st, b); okb && na+nb <= 64 {
			r := ex.fresh("concat", SStr)
			st.assume(Eq(App("slen", SInt, r), IntLit(na+nb)))
			if ex.cur != nil {
				ex.cur.strLens[r.Key()] = na + nb
			}
			for i := int64(0); i < na; i++ {
				st.assume(Eq(App("sat", SInt, r, IntLit(i)), App("sat", SInt, a, IntLit(i))))
			}
			for i := int64(0); i < nb; i++ {
				st.assume(Eq(App("sat", SInt, r, IntLit(na+i)), App("sat", SInt, b, IntLit(i))))
			}
			return r
		}
	}
	r := ex.fresh("concat", SStr)
	la, lb := App("slen", SInt, a), App("slen", SInt, b)
	st.assume(Eq(App("slen", SInt, r), Add(la, lb)))
	k := Var("k!cat", SInt)
	st.assume(Forall([]*Term{k}, Implies(And(Le(IntLit(0), k), Lt(k, la)), Eq(App("sat", SInt, r, k), App("sat", SInt, a, k)))))
	st.assume(Forall([]*Term{k}, Implies(And(Le(IntLit(0), k), Lt(k, lb)), Eq(App("sat", SInt, r, Add(la, k)), App("sat", SInt, b, k)))))
	return r
}

func (ex *Exec) strSub(st *State, s, lo, hi *Term) *Term {
	// s[lo:] of a string whose length the path knows: use the numeral
	if hi.Op == "app" && hi.Name == "slen" && len(hi.Args) == 1 {
		if n, ok := ex.knownStrLen(st, hi.Args[0]); ok {
			hi = IntLit(n)
		}
	}
	if c, ok := ex.strLitContent(s); ok {
		l, ok1 := lo.Int64()
		h, ok2 := hi.Int64()
		if ok1 && ok2 && l >= 0 && l <= h && int(h) <= len(c) {
			return ex.strLit(c[l:h])
		}
	}
	r := ex.fresh("substr", SStr)
	st.assume(Eq(App("slen", SInt, r), Sub(hi, lo)))
	if n, ok := Sub(hi, lo).Int64(); ok && ex.cur != nil {
		ex.cur.strLens[r.Key()] = n
	}
	// concrete length: pointwise facts, else quantified
	if n, ok := Sub(hi, lo).Int64(); ok && n <= 64 {
		for i := int64(0); i < n; i++ {
			st.assume(Eq(App("sat", SInt, r, IntLit(i)), App("sat", SInt, s, Add(lo, IntLit(i)))))
		}
		return r
	}
	k := Var("k!sub", SInt)
	st.assume(Forall([]*Term{k}, Implies(And(Le(IntLit(0), k), Lt(k, Sub(hi, lo))), Eq(App("sat", SInt, r, k), App("sat", SInt, s, Add(lo, k))))))
	return r
}

// ---------------------------------------------------------------------------
// maps

func mapHeapKeys(t *types.Map) (present string, length string) {
	k := "M[" + typeKey(t) + "]"
	return k + ".present", k + ".len"
}

func (ex *Exec) mapKeyTerm(st *State, t *types.Map, k Value) *Term {
	kt, ok := k.(*Term)
	if !ok || kt.Sort != SInt {
		ex.unsupported("map with key type %s", t.Key())
	}
	return kt
}

func (ex *Exec) makeMap(st *State, t *types.Map) *VMap {
	ref := st.alloc
	st.alloc = Add(st.alloc, IntLit(1))
	st.freshRefs = append(st.freshRefs, ref)
	pk, lk := mapHeapKeys(t)
	hp := st.heap(pk, SHBool)
	st.heaps[pk] = Store(hp, ref, ConstArr(SArrB, False))
	hl := st.heap(lk, SArr)
	st.heaps[lk] = Store(hl, ref, IntLit(0))
	leaves, err := ex.flattenType(t.Elem())
	if err != nil {
		ex.unsupported("%v", err)
	}
	zero := ex.flatten(st, t.Elem(), ex.zeroValue(t.Elem()))
	for i, lf := range leaves {
		key := "M[" + typeKey(t) + "].val" + lf.Path
		h := st.heap(key, HeapOf(lf.Sort))
		st.heaps[key] = Store(h, ref, ConstArr(ArrayOf(lf.Sort), zero[i]))
	}
	return &VMap{Ref: ref, T: t}
}

func (ex *Exec) mapPresent(st *State, hs *State, m *VMap, k *Term) *Term {
	pk, _ := mapHeapKeys(m.T)
	hp := hs.heap(pk, SHBool)
	return And(Neq(m.Ref, IntLit(0)), Select(Select(hp, m.Ref), k))
}

func (ex *Exec) mapGet(st *State, hs *State, m *VMap, k *Term) Value {
	leaves, err := ex.flattenType(m.T.Elem())
	if err != nil {
		ex.unsupported("%v", err)
	}
	present := ex.mapPresent(st, hs, m, k)
	zero := ex.flatten(st, m.T.Elem(), ex.zeroValue(m.T.Elem()))
	vals := make([]*Term, len(leaves))
	for i, lf := range leaves {
		key := "M[" + typeKey(m.T) + "].val" + lf.Path
		h := hs.heap(key, HeapOf(lf.Sort))
		raw := Select(Select(h, m.Ref), k)
		if lf.T != nil && lf.Sort == SInt && !raw.IsIntLit() {
			st.assume(rangeFact(lf.T, raw))
		}
		vals[i] = Ite(present, raw, zero[i])
	}
	pos := 0
	return ex.unflatten(st, m.T.Elem(), vals, &pos)
}

// literalMapKeys: the keys of a map whose presence row is a chain of stores with literal keys over the
// empty map (a table built by a composite literal); ok=false otherwise.
func (ex *Exec) literalMapKeys(st *State, m *VMap) ([]int64, bool) {
	pk, _ := mapHeapKeys(m.T)
	row := Select(st.heap(pk, SHBool), m.Ref)
	if os.Getenv("GOVC_DEBUGMAP") != "" {
		rs := row.String()
		if len(rs) > 300 {
			rs = rs[:300]
		}
		fmt.Fprintf(os.Stderr, "literalMapKeys ref=%s row=%s\n", m.Ref, rs)
	}
	var keys []int64
	seen := map[int64]bool{}
	for row.Op == "store" {
		lit, ok := row.Args[1].Int64()
		if !ok || !row.Args[2].IsBoolLit() {
			return nil, false
		}
		if !seen[lit] && row.Args[2].IsTrue() {
			keys = append(keys, lit)
		}
		seen[lit] = true
		row = row.Args[0]
	}
	if row.Op != "constarr" || !row.Args[0].IsFalse() {
		return nil, false
	}
	sort.Slice(keys, func(i, j int) bool { return keys[i] < keys[j] })
	return keys, true
}

func (ex *Exec) doLookup(st *State, fr *Frame, in *ssa.Lookup) Value {
	x := ex.val(st, fr, in.X)
	switch m := x.(type) {
	case *Term: // string index
		idx := ex.val(st, fr, in.Index).(*Term)
		ex.check(st, "index", in, And(Le(IntLit(0), idx), Lt(idx, App("slen", SInt, m))), "string index out of range")
		return App("sat", SInt, m, idx)
	case *VMap:
		k := ex.mapKeyTerm(st, m.T, ex.val(st, fr, in.Index))
		// a table of functions (e.g. the function-code dispatch tables) indexed by a symbolic key: one case
		// per literal key stored in the table, so that the function called afterwards is statically known
		if _, isFunc := m.T.Elem().Underlying().(*types.Signature); isFunc && !k.IsIntLit() {
			if keys, ok := ex.literalMapKeys(st, m); ok && len(keys) <= 64 {
				matched := false
				for _, lit := range keys {
					if ex.decide(st, Eq(k, IntLit(lit))) {
						k = IntLit(lit)
						matched = true
						break
					}
				}
				if !matched {
					// the key is none of the table's keys on this path: the zero value (a nil function)
					if in.CommaOk {
						return &VTuple{Vals: []Value{ex.zeroValue(m.T.Elem()), False}}
					}
					return ex.zeroValue(m.T.Elem())
				}
			}
		}
		v := ex.mapGet(st, st, m, k)
		if in.CommaOk {
			return &VTuple{Vals: []Value{v, ex.mapPresent(st, st, m, k)}}
		}
		return v
	}
	ex.unsupported("Lookup on %T", x)
	return nil
}

func (ex *Exec) doMapUpdate(st *State, fr *Frame, in *ssa.MapUpdate) {
	m := ex.val(st, fr, in.Map).(*VMap)
	k := ex.mapKeyTerm(st, m.T, ex.val(st, fr, in.Key))
	v := ex.val(st, fr, in.Value)
	ex.check(st, "nilmap", in, Neq(m.Ref, IntLit(0)), "assignment to entry in nil map")
	ex.checkWritable(st, m.Ref, in)
	ex.mapSet(st, m, k, v)
}

func (ex *Exec) mapSet(st *State, m *VMap, k *Term, v Value) {
	pk, lk := mapHeapKeys(m.T)
	hp := st.heap(pk, SHBool)
	was := Select(Select(hp, m.Ref), k)
	st.heaps[pk] = Store(hp, m.Ref, Store(Select(hp, m.Ref), k, True))
	hl := st.heap(lk, SArr)
	st.heaps[lk] = Store(hl, m.Ref, Add(Select(hl, m.Ref), Ite(was, IntLit(0), IntLit(1))))
	leaves, err := ex.flattenType(m.T.Elem())
	if err != nil {
		ex.unsupported("%v", err)
	}
	vals := ex.flatten(st, m.T.Elem(), v)
	for i, lf := range leaves {
		key := "M[" + typeKey(m.T) + "].val" + lf.Path
		h := st.heap(key, HeapOf(lf.Sort))
		st.heaps[key] = Store(h, m.Ref, Store(Select(h, m.Ref), k, vals[i]))
	}
}

func (ex *Exec) mapLen(st *State, hs *State, m *VMap) *Term {
	_, lk := mapHeapKeys(m.T)
	hl := hs.heap(lk, SArr)
	l := Select(hl, m.Ref)
	if !l.IsIntLit() {
		st.assume(Le(IntLit(0), l))
	}
	return Ite(Eq(m.Ref, IntLit(0)), IntLit(0), l)
}

// mapNext: iteration with a ghost visited set. The set is a Bool array V; next either
// yields a present key not in V (and adds it) or reports exhaustion, in which
// case every present key is in V.
func (ex *Exec) mapNext(st *State, fr *Frame, in *ssa.Next, it *VIter) Value {
	m := it.Map
	visKey := fmt.Sprintf("$visited.%d", it.Cell.ID)
	vis, ok := st.ghost[visKey].(*Term)
	if !ok {
		vis = ConstArr(SArrB, False)
	}
	// deterministic name: the instruction is re-executed after the case split
	site := fmt.Sprintf("%s!%d", ex.siteName(st, in, "next"), fr.visits[fr.block])
	okv := Var("mapnext.ok!"+site, SBool)
	more := ex.decide(st, okv)
	k := Var("k!mapit", SInt)
	pk, _ := mapHeapKeys(m.T)
	hp := st.heap(pk, SHBool)
	if !more {
		st.assume(Forall([]*Term{k}, Implies(And(Neq(m.Ref, IntLit(0)), Select(Select(hp, m.Ref), k)), Select(vis, k))))
		return &VTuple{Vals: []Value{False, ex.zeroValue(m.T.Key()), ex.zeroValue(m.T.Elem())}}
	}
	key := Var("mapkey!"+site, SInt)
	st.assume(rangeFact(m.T.Key(), key))
	st.assume(ex.mapPresent(st, st, m, key))
	st.assume(Not(Select(vis, key)))
	st.ghost[visKey] = Store(vis, key, True)
	v := ex.mapGet(st, st, m, key)
	return &VTuple{Vals: []Value{True, key, v}}
}

// ---------------------------------------------------------------------------
// calls

func (ex *Exec) doCall(st *State, fr *Frame, in *ssa.Call, c *ssa.CallCommon) bool {
	var fnv Value
	fnv = ex.val(st, fr, c.Value)
	args := make([]Value, len(c.Args))
	for i, a := range c.Args {
		args[i] = ex.val(st, fr, a)
	}
	return ex.invoke(st, fr, in, c, fnv, args, false)
}

// invoke performs a call. Returns true if execution continues in st (possibly in a new frame).
func (ex *Exec) invoke(st *State, fr *Frame, instr ssa.Instruction, c *ssa.CallCommon, fnv Value, args []Value, isDefer bool) bool {
	finish := func(res Value) bool {
		if isDefer {
			return true // stay on the RunDefers instruction
		}
		if v, ok := instr.(ssa.Value); ok {
			fr.regs[v] = res
		}
		fr.idx++
		return true
	}
	if c.IsInvoke() {
		if rt, ok := fnv.(*VRType); ok {
			return finish(ex.rtypeMethod(st, instr, rt, c.Method.Name(), args))
		}
		recv := fnv.(*VIface)
		recv, alt := ex.resolveIface(st, recv, instr)
		if alt == nil {
			ex.check(st, "nil", instr, Neq(recv.Tag, IntLit(0)), "method call on nil interface")
			// symbolic interface: interface-method contract
			res := ex.callInterfaceMethod(st, instr, c, recv, args)
			return finish(res)
		}
		sel := ex.Prog.MethodSets.MethodSet(alt.T).Lookup(c.Method.Pkg(), c.Method.Name())
		if sel == nil {
			ex.unsupported("method %s not found on %s", c.Method.Name(), alt.T)
		}
		if mdl := ex.altMethodModel(alt, c.Method.Name()); mdl != nil {
			return finish(mdl(ex, st, instr, append([]Value{alt.Val}, args...)))
		}
		callee := ex.Prog.MethodValue(sel)
		if callee == nil {
			ex.unsupported("no method value for %s.%s", alt.T, c.Method.Name())
		}
		return ex.callFunction(st, fr, instr, callee, nil, append([]Value{alt.Val}, args...), isDefer, finish)
	}
	f, ok := fnv.(*VFunc)
	if !ok {
		ex.unsupported("call through %T", fnv)
	}
	if strings.HasPrefix(f.Sym, "builtin:") {
		return finish(ex.callBuiltin(st, fr, instr, c, strings.TrimPrefix(f.Sym, "builtin:"), args))
	}
	if f.Fn == nil {
		ex.check(st, "nil", instr, Not(f.Nil), "call of nil function value")
		res := ex.callSymbolicFunc(st, instr, c, f, args)
		return finish(res)
	}
	return ex.callFunction(st, fr, instr, f.Fn, f.Env, args, isDefer, finish)
}

func (ex *Exec) callFunction(st *State, fr *Frame, instr ssa.Instruction, callee *ssa.Function, env []Value, args []Value, isDefer bool, finish func(Value) bool) bool {
	key := ex.FuncKey(callee)
	inModule := strings.HasPrefix(key, ex.ModulePath)
	// library model?
	if mdl, ok := libModels[calleeName(callee)]; ok {
		ex.cur.libCalls[calleeName(callee)] = true
		return finish(mdl(ex, st, instr, args))
	}
	if res, ok := ex.trySummary(st, instr, callee, key, args); ok {
		return finish(res)
	}
	if ct, ok := ex.Contracts[key]; ok && !(callee == ex.cur.fn && len(st.frames) == 0) {
		if !ct.hasAttr("inline") {
			ex.cur.contractsUsed[key] = true
			if ct.Trusted {
				ex.cur.trustedUsed[key] = true
			}
			res := ex.callWithContractEnv(st, instr, callee, ct, args, env)
			return finish(res)
		}
	}
	if !inModule {
		if callee.Blocks == nil || !ex.inlineableLib(callee) {
			ex.cur.unmodelled[calleeName(callee)] = true
			return finish(ex.havocCall(st, instr, callee.Signature, args, calleeName(callee)))
		}
	}
	if callee.Blocks == nil {
		ex.cur.unmodelled[calleeName(callee)] = true
		return finish(ex.havocCall(st, instr, callee.Signature, args, calleeName(callee)))
	}
	// inline
	if len(st.frames) > ex.MaxInline {
		ex.unsupported("inlining depth exceeded at %s", key)
	}
	depth := 0
	for _, f := range st.frames {
		if f.fn == callee {
			depth++
		}
	}
	if depth > 3 {
		ex.unsupported("recursive call of %s without contract (depth > 3)", key)
	}
	ex.cur.inlined[key] = true
	nf := &Frame{fn: callee, block: callee.Blocks[0], regs: map[ssa.Value]Value{}, visits: map[*ssa.BasicBlock]int{}}
	if len(args) != len(callee.Params) {
		ex.unsupported("argument count mismatch calling %s: %d vs %d", key, len(args), len(callee.Params))
	}
	for i, p := range callee.Params {
		nf.regs[p] = args[i]
	}
	for i, fv := range callee.FreeVars {
		if i >= len(env) {
			ex.unsupported("closure environment mismatch for %s", key)
		}
		nf.regs[fv] = env[i]
	}
	st.frames = append(st.frames, nf)
	return true
}

func (c *Contract) hasAttr(k string) bool {
	_, ok := c.Attrs[k]
	return ok
}

func calleeName(fn *ssa.Function) string {
	if o := fn.Origin(); o != nil {
		return o.String()
	}
	return fn.String()
}

func (ex *Exec) inlineableLib(fn *ssa.Function) bool {
	// synthetic wrappers / bound-method thunks around library functions are fine to execute
	if fn.Synthetic != "" && (strings.Contains(fn.Synthetic, "wrapper") || strings.Contains(fn.Synthetic, "bound method") || strings.Contains(fn.Synthetic, "thunk")) {
		return true
	}
	return false
}

// havocCall: an unmodelled callee. Results are arbitrary; heap rows reachable from
// slice arguments are havocked.
func (ex *Exec) havocCall(st *State, instr ssa.Instruction, sig *types.Signature, args []Value, name string) Value {
	for _, a := range args {
		ex.havocReachable(st, a)
	}
	return ex.symbolicResults(st, sig, "ret."+shortName(name))
}

func shortName(n string) string {
	if i := strings.LastIndex(n, "/"); i >= 0 {
		n = n[i+1:]
	}
	return n
}

func (ex *Exec) havocReachable(st *State, v Value) {
	switch x := v.(type) {
	case *VSlice:
		for _, key := range sortedKeys(st.heaps) {
			h := st.heaps[key]
			if strings.HasPrefix(key, "H") {
				st.heaps[key] = Store(h, x.Ref, ex.fresh("row", h.Sort.Elem()))
			}
		}
	case *VPtr:
		if x.Obj != nil {
			cur := ex.loadPath(st.mem[x.Obj], x.Path)
			var t types.Type = x.T
			st.mem[x.Obj] = ex.storePath(st.mem[x.Obj], x.Path, ex.havocValueSafe(st, t, cur, x.Obj.Name))
		}
	case *VStruct:
		for _, f := range x.Fields {
			ex.havocReachable(st, f)
		}
	case *VIface:
		for _, a := range x.Alts {
			ex.havocReachable(st, a.Val)
		}
	case *VMap:
		for _, key := range sortedKeys(st.heaps) {
			h := st.heaps[key]
			if strings.HasPrefix(key, "M["+typeKey(x.T)+"]") {
				if h.Sort == SArr {
					st.heaps[key] = Store(h, x.Ref, ex.fresh("maplen", SInt))
				} else {
					st.heaps[key] = Store(h, x.Ref, ex.fresh("row", h.Sort.Elem()))
				}
			}
		}
	}
}

func (ex *Exec) havocValueSafe(st *State, t types.Type, old Value, name string) (res Value) {
	defer func() {
		if r := recover(); r != nil {
			if _, ok := r.(unsupportedErr); ok {
				res = old
				return
			}
			panic(r)
		}
	}()
	return ex.havocValue(st, t, old, name)
}

func (ex *Exec) symbolicResults(st *State, sig *types.Signature, prefix string) Value {
	res := sig.Results()
	name := ex.fresh(prefix, SInt).Name
	switch res.Len() {
	case 0:
		return &VTuple{}
	case 1:
		return ex.symbolicValue(st, res.At(0).Type(), name, 0)
	}
	vt := &VTuple{}
	for i := 0; i < res.Len(); i++ {
		vt.Vals = append(vt.Vals, ex.symbolicValue(st, res.At(i).Type(), fmt.Sprintf("%s.%d", name, i), 0))
	}
	return vt
}

// ---------------------------------------------------------------------------
// builtins

func (ex *Exec) callBuiltin(st *State, fr *Frame, instr ssa.Instruction, c *ssa.CallCommon, name string, args []Value) Value {
	switch name {
	case "len":
		switch x := args[0].(type) {
		case *Term:
			if cst, ok := ex.strLitContent(x); ok {
				return IntLit(int64(len(cst)))
			}
			return App("slen", SInt, x)
		case *VSlice:
			return x.Len
		case *VMap:
			return ex.mapLen(st, st, x)
		case *VOpaque:
			return ex.symbolicValue(st, types.Typ[types.Int], ex.fresh("chanlen", SInt).Name, 0)
		}
	case "cap":
		if x, ok := args[0].(*VSlice); ok {
			return x.Cap
		}
	case "copy":
		return ex.builtinCopy(st, instr, args[0].(*VSlice), args[1])
	case "append":
		return ex.builtinAppend(st, instr, args[0].(*VSlice), args[1])
	case "close":
		// ghost event: one more channel closed
		n := int64(0)
		if g, ok := st.ghost["$closes"].(*Term); ok {
			n, _ = g.Int64()
		}
		st.ghost["$closes"] = IntLit(n + 1)
		return &VTuple{}
	case "print", "println":
		return &VTuple{}
	case "delete":
		m := args[0].(*VMap)
		k := ex.mapKeyTerm(st, m.T, args[1])
		ex.checkWritable(st, m.Ref, instr)
		pk, lk := mapHeapKeys(m.T)
		hp := st.heap(pk, SHBool)
		was := ex.mapPresent(st, st, m, k)
		st.heaps[pk] = Store(hp, m.Ref, Store(Select(hp, m.Ref), k, False))
		hl := st.heap(lk, SArr)
		st.heaps[lk] = Store(hl, m.Ref, Sub(Select(hl, m.Ref), Ite(was, IntLit(1), IntLit(0))))
		return &VTuple{}
	case "min", "max":
		r := args[0].(*Term)
		for _, a := range args[1:] {
			t := a.(*Term)
			if name == "min" {
				r = Ite(Lt(t, r), t, r)
			} else {
				r = Ite(Gt(t, r), t, r)
			}
		}
		return r
	case "ssa:wrapnilchk":
		p := args[0].(*VPtr)
		ex.check(st, "nil", instr, Not(p.Nil), "nil receiver in value-method wrapper")
		return p
	case "recover":
		return nilIface()
	case "ssa:deferstack":
		return &VOpaque{ID: IntLit(0)}
	}
	if len(args) == 0 {
		ex.unsupported("builtin %s", name)
	}
	ex.unsupported("builtin %s on %T", name, args[0])
	return nil
}

func (ex *Exec) builtinCopy(st *State, instr ssa.Instruction, dst *VSlice, srcv Value) Value {
	var n *Term
	switch src := srcv.(type) {
	case *VSlice:
		n = Ite(Lt(dst.Len, src.Len), dst.Len, src.Len)
		if n.IsIntLit() && n.Int.Sign() == 0 {
			return n
		}
		ex.checkWritable(st, dst.Ref, instr)
		leaves, err := ex.flattenType(dst.Elem)
		if err != nil {
			ex.unsupported("%v", err)
		}
		for _, lf := range leaves {
			key := heapKey(dst.Elem, lf)
			h := st.heap(key, HeapOf(lf.Sort))
			srcRow := Select(h, src.Ref)
			dstRow := Select(h, dst.Ref)
			var nrow *Term
			if cnt, ok := n.Int64(); ok && cnt <= 64 {
				nrow = dstRow
				for i := int64(0); i < cnt; i++ {
					nrow = Store(nrow, Idx(dst.Off, IntLit(i)), Select(srcRow, Idx(src.Off, IntLit(i))))
				}
			} else {
				nrow = ex.fresh("copyrow", ArrayOf(lf.Sort))
				k := Var("k!copy", SInt)
				inside := And(Le(dst.Off, k), Lt(k, Add(dst.Off, n)))
				st.assume(Forall([]*Term{k}, Implies(And(Le(IntLit(0), k), Lt(k, n)),
					Eq(Select(nrow, Idx(dst.Off, k)), Select(srcRow, Idx(src.Off, k))))))
				st.assume(Forall([]*Term{k}, Implies(Not(inside), Eq(Select(nrow, k), Select(dstRow, k)))))
			}
			st.heaps[key] = Store(h, dst.Ref, nrow)
		}
		return n
	case *Term: // copy(dst, string)
		sl := App("slen", SInt, src)
		n = Ite(Lt(dst.Len, sl), dst.Len, sl)
		ex.checkWritable(st, dst.Ref, instr)
		h := st.heap("H.int", SHInt)
		dstRow := Select(h, dst.Ref)
		nrow := ex.fresh("copyrow", SArr)
		k := Var("k!copy", SInt)
		inside := And(Le(dst.Off, k), Lt(k, Add(dst.Off, n)))
		st.assume(Forall([]*Term{k}, Implies(And(Le(IntLit(0), k), Lt(k, n)),
			Eq(Select(nrow, Idx(dst.Off, k)), App("sat", SInt, src, k)))))
		st.assume(Forall([]*Term{k}, Implies(Not(inside), Eq(Select(nrow, k), Select(dstRow, k)))))
		st.heaps["H.int"] = Store(h, dst.Ref, nrow)
		return n
	}
	ex.unsupported("copy from %T", srcv)
	return nil
}

// builtinAppend: the result is always modelled as a freshly allocated slice holding
// the old elements followed by the new ones. (Go may instead extend in place when
// capacity allows; the difference is observable only through aliasing of the
// spare capacity, which the verified code does not rely on - in-place growth is
// reported as an assumption.)
func (ex *Exec) builtinAppend(st *State, instr ssa.Instruction, s *VSlice, morev Value) Value {
	switch more := morev.(type) {
	case *VSlice:
		newLen := Add(s.Len, more.Len)
		leaves, err := ex.flattenType(s.Elem)
		if err != nil {
			ex.unsupported("%v", err)
		}
		// enough capacity: Go appends in place, i.e. writes into the memory the slice is a view of
		if ml, mok := more.Len.Int64(); mok && ml <= 16 && !(s.Cap.IsIntLit() && s.Len.IsIntLit() && s.Cap.Int.Cmp(s.Len.Int) == 0 && ml > 0) {
			if ex.decide(st, Ge(s.Cap, newLen)) {
				if ml > 0 {
					ex.checkWritable(st, s.Ref, instr)
				}
				for _, lf := range leaves {
					key := heapKey(s.Elem, lf)
					h := st.heap(key, HeapOf(lf.Sort))
					row := Select(h, s.Ref)
					moreRow := Select(h, more.Ref)
					for i := int64(0); i < ml; i++ {
						row = Store(row, Idx(s.Off, Add(s.Len, IntLit(i))), Select(moreRow, Idx(more.Off, IntLit(i))))
					}
					st.heaps[key] = Store(h, s.Ref, row)
				}
				return &VSlice{Ref: s.Ref, Off: s.Off, Len: newLen, Cap: s.Cap, Elem: s.Elem}
			}
		}
		if _, mok := more.Len.Int64(); !mok {
			// an appended slice of symbolic length: with enough capacity Go still appends in place (the elements are
			// moved as by copy(), i.e. read before anything is written - the two slices may overlap)
			if ex.decide(st, Ge(s.Cap, newLen)) {
				if !ex.decide(st, Eq(more.Len, IntLit(0))) {
					ex.checkWritable(st, s.Ref, instr)
				}
				for _, lf := range leaves {
					key := heapKey(s.Elem, lf)
					h := st.heap(key, HeapOf(lf.Sort))
					oldRow := Select(h, s.Ref)
					moreRow := Select(h, more.Ref)
					nrow := ex.fresh("approw", ArrayOf(lf.Sort))
					k := Var("k!app", SInt)
					lo := Idx(s.Off, s.Len)
					st.assume(Forall([]*Term{k}, Implies(And(Le(IntLit(0), k), Lt(k, more.Len)), Eq(Select(nrow, Add(lo, k)), Select(moreRow, Idx(more.Off, k))))))
					st.assume(Forall([]*Term{k}, Implies(Or(Lt(k, lo), Ge(k, Add(lo, more.Len))), Eq(Select(nrow, k), Select(oldRow, k)))))
					st.heaps[key] = Store(h, s.Ref, nrow)
				}
				return &VSlice{Ref: s.Ref, Off: s.Off, Len: newLen, Cap: s.Cap, Elem: s.Elem}
			}
		}
		ref := ex.allocRow(st, s.Elem)
		for _, lf := range leaves {
			key := heapKey(s.Elem, lf)
			h := st.heap(key, HeapOf(lf.Sort))
			oldRow := Select(h, s.Ref)
			moreRow := Select(h, more.Ref)
			var nrow *Term
			ml, mok := more.Len.Int64()
			if mok && ml <= 16 {
				// new row: old elements (quantified) + concrete new ones
				nrow = ex.fresh("approw", ArrayOf(lf.Sort))
				if sl, ok := s.Len.Int64(); ok && sl <= 64 {
					for i := int64(0); i < sl; i++ {
						st.assume(Eq(Select(nrow, IntLit(i)), Select(oldRow, Idx(s.Off, IntLit(i)))))
					}
				} else {
					k := Var("k!app", SInt)
					st.assume(Forall([]*Term{k}, Implies(And(Le(IntLit(0), k), Lt(k, s.Len)), Eq(Select(nrow, k), Select(oldRow, Idx(s.Off, k))))))
				}
				for i := int64(0); i < ml; i++ {
					st.assume(Eq(Select(nrow, Add(s.Len, IntLit(i))), Select(moreRow, Idx(more.Off, IntLit(i)))))
				}
			} else {
				nrow = ex.fresh("approw", ArrayOf(lf.Sort))
				k := Var("k!app", SInt)
				st.assume(Forall([]*Term{k}, Implies(And(Le(IntLit(0), k), Lt(k, s.Len)), Eq(Select(nrow, k), Select(oldRow, Idx(s.Off, k))))))
				st.assume(Forall([]*Term{k}, Implies(And(Le(IntLit(0), k), Lt(k, more.Len)), Eq(Select(nrow, Add(s.Len, k)), Select(moreRow, Idx(more.Off, k))))))
			}
			st.heaps[key] = Store(st.heaps[key], ref, nrow)
		}
		capv := ex.fresh("appcap", SInt)
		st.assume(And(Le(newLen, capv), Le(capv, IntLit(1<<48))))
		return &VSlice{Ref: ref, Off: IntLit(0), Len: newLen, Cap: capv, Elem: s.Elem}
	case *Term: // append([]byte, string...)
		ex.unsupported("append of a string")
	}
	ex.unsupported("append of %T", morev)
	return nil
}

var _ = token.NoPos

// ---------------------------------------------------------------------------
// per-type summaries of a reflective call
//
// attr summarize = <callee key suffix> by <lemma prefix>
//
// A call F(b, p) whose second argument has the known dynamic type *T (T a named type of the package of the
// function under proof) and points to a zero value of T is replaced by the contract of the lemma function
// <prefix>T of that package, PROVIDED that function's source is literally
//
//	var m T
//	err := F(b, &m)
//	return m, err
//
// (checked on its syntax tree): the lemma function is then the same call on a zero T, and its contract - proved
// on F's real body for this T - says everything the caller may rely on. The pointee is overwritten with the
// lemma's result m, the call returns err.
func (ex *Exec) trySummary(st *State, instr ssa.Instruction, callee *ssa.Function, key string, args []Value) (Value, bool) {
	if ex.cur == nil || ex.cur.contract == nil || len(st.frames) != 1 {
		return nil, false
	}
	spec := ex.cur.contract.Attrs["summarize"]
	if spec == "" {
		return nil, false
	}
	parts := strings.Split(spec, " by ")
	if len(parts) != 2 || !strings.HasSuffix(key, strings.TrimSpace(parts[0])) || len(args) != 2 {
		return nil, false
	}
	prefix := strings.TrimSpace(parts[1])
	iface, ok := args[1].(*VIface)
	if !ok {
		return nil, false
	}
	_, alt := ex.resolveIface(st, iface, instr)
	if alt == nil {
		return nil, false
	}
	pt, ok := alt.T.(*types.Pointer)
	if !ok {
		return nil, false
	}
	named, ok := pt.Elem().(*types.Named)
	if !ok || named.Obj().Pkg() == nil || ex.cur.fn.Pkg == nil || named.Obj().Pkg() != ex.cur.fn.Pkg.Pkg {
		return nil, false
	}
	lkey := named.Obj().Pkg().Path() + "." + prefix + named.Obj().Name()
	lfn := ex.FuncByKey[lkey]
	lct := ex.Contracts[lkey]
	if lfn == nil || lct == nil {
		ex.unsupported("attr summarize: no lemma function %s under contract", lkey)
	}
	if why := summaryShape(lfn, callee, named); why != "" {
		ex.unsupported("attr summarize: %s is not of the shape `var m T; err := F(b, &m); return m, err`: %s", lkey, why)
	}
	ptr, ok := alt.Val.(*VPtr)
	if !ok {
		return nil, false
	}
	ex.check(st, "nil", instr, Not(ptr.Nil), "nil target")
	// the target holds the zero value of T
	isZero := ex.isZeroValue(st, ex.load(st, ptr, instr), ex.zeroValue(named))
	ex.oblige(st, "requires", fmt.Sprintf("requires:%s.zero-target@%s", shortName(lkey), ex.siteName(st, instr, "call")), isZero, instr.Pos(), "the decoded value starts as the zero value of its type")
	ex.cur.contractsUsed[lkey] = true
	res := ex.applyContract(st, instr, ex.paramNames(lfn, lct), ex.resultNames(lfn, lct), lfn.Signature, lct, []Value{args[0]})
	tup, ok := res.(*VTuple)
	if !ok || len(tup.Vals) != 2 {
		ex.unsupported("attr summarize: %s does not return (value, error)", lkey)
	}
	ex.store(st, ptr, tup.Vals[0], instr)
	return tup.Vals[1], true
}

// summaryShape checks the syntax of a summary lemma; "" if it has the required shape.
func summaryShape(lfn, callee *ssa.Function, named *types.Named) string {
	fd, ok := lfn.Syntax().(*ast.FuncDecl)
	if !ok || fd.Body == nil || fd.Recv != nil {
		return "no source"
	}
	if fd.Type.Params == nil || len(fd.Type.Params.List) != 1 || len(fd.Type.Params.List[0].Names) != 1 {
		return "one parameter expected"
	}
	bname := fd.Type.Params.List[0].Names[0].Name
	if len(fd.Body.List) != 3 {
		return "three statements expected"
	}
	ds, ok := fd.Body.List[0].(*ast.DeclStmt)
	if !ok {
		return "first statement is not a declaration"
	}
	gd, ok := ds.Decl.(*ast.GenDecl)
	if !ok || len(gd.Specs) != 1 {
		return "first statement is not `var m T`"
	}
	vs, ok := gd.Specs[0].(*ast.ValueSpec)
	if !ok || len(vs.Names) != 1 || len(vs.Values) != 0 {
		return "first statement is not `var m T`"
	}
	if id, ok := vs.Type.(*ast.Ident); !ok || id.Name != named.Obj().Name() {
		return "declared type is not " + named.Obj().Name()
	}
	mname := vs.Names[0].Name
	as, ok := fd.Body.List[1].(*ast.AssignStmt)
	if !ok || len(as.Lhs) != 1 || len(as.Rhs) != 1 {
		return "second statement is not `err := F(b, &m)`"
	}
	errID, ok := as.Lhs[0].(*ast.Ident)
	if !ok {
		return "second statement is not `err := F(b, &m)`"
	}
	call, ok := as.Rhs[0].(*ast.CallExpr)
	if !ok || len(call.Args) != 2 {
		return "second statement is not a call with two arguments"
	}
	sel, ok := call.Fun.(*ast.SelectorExpr)
	if !ok || sel.Sel.Name != callee.Name() {
		return "the call is not to " + callee.Name()
	}
	if a0, ok := call.Args[0].(*ast.Ident); !ok || a0.Name != bname {
		return "first argument is not the parameter"
	}
	un, ok := call.Args[1].(*ast.UnaryExpr)
	if !ok || un.Op != token.AND {
		return "second argument is not &m"
	}
	if a1, ok := un.X.(*ast.Ident); !ok || a1.Name != mname {
		return "second argument is not &m"
	}
	rs, ok := fd.Body.List[2].(*ast.ReturnStmt)
	if !ok || len(rs.Results) != 2 {
		return "third statement is not `return m, err`"
	}
	r0, ok0 := rs.Results[0].(*ast.Ident)
	r1, ok1 := rs.Results[1].(*ast.Ident)
	if !ok0 || !ok1 || r0.Name != mname || r1.Name != errID.Name {
		return "third statement is not `return m, err`"
	}
	// the only call in the function is the one to F
	n := 0
	for _, b := range lfn.Blocks {
		for _, in := range b.Instrs {
			if c, ok := in.(*ssa.Call); ok {
				if _, isBuiltin := c.Call.Value.(*ssa.Builtin); isBuiltin {
					continue
				}
				n++
				if c.Call.StaticCallee() != callee {
					return "calls something other than " + callee.Name()
				}
			}
		}
	}
	if n != 1 {
		return "exactly one call expected"
	}
	return ""
}

// isZeroValue: v is the zero value z (same shape), compared by kind: pointers, maps, interfaces and functions
// by being nil, slices by being empty and nil, scalars by value.
func (ex *Exec) isZeroValue(st *State, v, z Value) *Term {
	switch zz := z.(type) {
	case *Term:
		if t, ok := v.(*Term); ok {
			return Eq(t, zz)
		}
	case *VStruct:
		if vs, ok := v.(*VStruct); ok && len(vs.Fields) == len(zz.Fields) {
			var cs []*Term
			for i := range zz.Fields {
				cs = append(cs, ex.isZeroValue(st, vs.Fields[i], zz.Fields[i]))
			}
			return And(cs...)
		}
	case *VPtr:
		if p, ok := v.(*VPtr); ok {
			return p.Nil
		}
	case *VSlice:
		if sl, ok := v.(*VSlice); ok {
			return And(Eq(sl.Len, IntLit(0)), Eq(sl.Cap, IntLit(0)), Eq(sl.Ref, IntLit(0)))
		}
	case *VIface:
		if i, ok := v.(*VIface); ok {
			return Eq(i.Tag, IntLit(0))
		}
	case *VMap:
		if m, ok := v.(*VMap); ok {
			return Eq(m.Ref, IntLit(0))
		}
	case *VFunc:
		if f, ok := v.(*VFunc); ok && f.Nil != nil {
			return f.Nil
		}
	case *VTuple:
		if t, ok := v.(*VTuple); ok && len(t.Vals) == len(zz.Vals) {
			var cs []*Term
			for i := range zz.Vals {
				cs = append(cs, ex.isZeroValue(st, t.Vals[i], zz.Vals[i]))
			}
			return And(cs...)
		}
	}
	return False // not comparable: the obligation fails
}

// hasChanEvents: the instructions (and the module functions they execute in place) send on or close a channel.
func (ex *Exec) hasChanEvents(instrs []ssa.Instruction, seen map[*ssa.Function]bool) bool {
	for _, in := range instrs {
		switch x := in.(type) {
		case *ssa.Send:
			return true
		case *ssa.Select:
			for _, s := range x.States {
				if s.Dir == types.SendOnly {
					return true
				}
			}
		case ssa.CallInstruction:
			c := x.Common()
			if b, ok := c.Value.(*ssa.Builtin); ok && b.Name() == "close" {
				return true
			}
			var callee *ssa.Function
			switch v := c.Value.(type) {
			case *ssa.Function:
				callee = v
			case *ssa.MakeClosure:
				callee, _ = v.Fn.(*ssa.Function)
			}
			if callee == nil || seen[callee] || callee.Blocks == nil {
				continue
			}
			seen[callee] = true
			key := ex.FuncKey(callee)
			if !strings.HasPrefix(key, ex.ModulePath) {
				continue
			}
			if ct, ok := ex.Contracts[key]; ok && !ct.hasAttr("inline") {
				continue // modular call: a contract does not describe channel events of its callee
			}
			for _, b := range callee.Blocks {
				if ex.hasChanEvents(b.Instrs, seen) {
					return true
				}
			}
		}
	}
	return false
}
