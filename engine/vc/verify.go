package vc

import (
	"fmt"
	"go/token"
	"go/types"
	"os"
	"runtime"
	"runtime/debug"
	"sort"
	"strings"
	"time"

	"golang.org/x/tools/go/ssa"
)

type FuncResult struct {
	Key           string
	Pos           string
	Obligations   []*Obligation
	Paths         int
	Unsupported   []string
	Inlined       []string
	LibCalls      []string
	Unmodelled    []string
	ContractsUsed []string
	TrustedUsed   []string
	Error         string
	Returns       int
}

// AlignClosures: contracts of anonymous functions are written under the function's ordinal in its parent
// (F$1, F$2, ...). A NEW anonymous function in front of a specified one shifts the ordinals. When the contract
// written for F$i mentions program names (captured variables, parameters, locals) that F$i does not have, and
// exactly one other anonymous function of the same parent has them all, the contract is taken to mean that one:
// it keeps the name F$i in every obligation, pin and scope, and the function now at ordinal i is named F$new<i>.
func (ex *Exec) AlignClosures() {
	ex.closureAlias = map[*ssa.Function]string{}
	avail := func(f *ssa.Function) map[string]bool {
		out := map[string]bool{}
		for _, p := range f.Params {
			out[p.Name()] = true
		}
		for _, fv := range f.FreeVars {
			out[fv.Name()] = true
		}
		for _, b := range f.Blocks {
			for _, in := range b.Instrs {
				if a, ok := in.(*ssa.Alloc); ok && a.Comment != "" {
					out[a.Comment] = true
				}
			}
		}
		return out
	}
	var visit func(parent *ssa.Function)
	visit = func(parent *ssa.Function) {
		if parent == nil || len(parent.AnonFuncs) == 0 {
			return
		}
		defer func() {
			for _, a := range parent.AnonFuncs {
				visit(a)
			}
		}()
		names := map[*ssa.Function]map[string]bool{}
		all := map[string]bool{}
		for _, a := range parent.AnonFuncs {
			names[a] = avail(a)
			for n := range names[a] {
				all[n] = true
			}
		}
		type want struct {
			ct    *Contract
			key   string
			at    *ssa.Function
			needs map[string]bool
		}
		var wants []*want
		for _, a := range parent.AnonFuncs {
			key := ex.FuncKey(a)
			ct, ok := ex.Contracts[key]
			if !ok {
				continue
			}
			ids := map[string]bool{}
			for _, cl := range ct.Requires {
				exprIdents(cl.E, ids)
			}
			for _, cl := range ct.Ensures {
				exprIdents(cl.E, ids)
			}
			for _, d := range ct.Defines {
				exprIdents(d, ids)
			}
			declared := map[string]bool{}
			for _, n := range ct.Params {
				declared[n] = true
			}
			for _, n := range ct.Results {
				declared[n] = true
			}
			needs := map[string]bool{}
			for n := range ids {
				if all[n] && !declared[n] {
					needs[n] = true
				}
			}
			wants = append(wants, &want{ct: ct, key: key, at: a, needs: needs})
		}
		has := func(f *ssa.Function, needs map[string]bool) bool {
			for n := range needs {
				if !names[f][n] {
					return false
				}
			}
			return true
		}
		taken := map[*ssa.Function]bool{}
		for _, w := range wants {
			if has(w.at, w.needs) {
				taken[w.at] = true
			}
		}
		for _, w := range wants {
			if has(w.at, w.needs) || len(w.needs) == 0 {
				continue
			}
			var cands []*ssa.Function
			for _, a := range parent.AnonFuncs {
				if a != w.at && !taken[a] && has(a, w.needs) {
					cands = append(cands, a)
				}
			}
			if len(cands) != 1 {
				continue
			}
			g := cands[0]
			taken[g] = true
			oldName := ex.FuncKey(g)
			ex.closureAlias[g] = w.key
			if _, done := ex.closureAlias[w.at]; !done {
				ex.closureAlias[w.at] = strings.Replace(w.key, "$", "$new", 1)
			}
			ex.AliasNotes = append(ex.AliasNotes, fmt.Sprintf("the contract written for %s is taken to mean %s (the anonymous functions of its parent were renumbered)", shortName(w.key), shortName(oldName)))
		}
	}
	var all []*ssa.Function
	var collect func(f *ssa.Function)
	collect = func(f *ssa.Function) {
		all = append(all, f)
		for _, a := range f.AnonFuncs {
			collect(a)
		}
	}
	for _, p := range ex.Prog.AllPackages() {
		if !strings.HasPrefix(p.Pkg.Path(), ex.ModulePath) {
			continue
		}
		for _, m := range p.Members {
			switch x := m.(type) {
			case *ssa.Function:
				visit(x)
				collect(x)
			case *ssa.Type:
				for _, t := range []types.Type{x.Type(), types.NewPointer(x.Type())} {
					ms := ex.Prog.MethodSets.MethodSet(t)
					for i := 0; i < ms.Len(); i++ {
						if fn := ex.Prog.MethodValue(ms.At(i)); fn != nil && fn.Synthetic == "" {
							visit(fn)
							collect(fn)
						}
					}
				}
			}
		}
	}
	// A function under contract that was RENAMED (or an anonymous function that was hoisted to a named one):
	// the contract's function no longer exists, it did when spec/functions_baseline.json was written, and exactly
	// one function of the same package is new since then and has the same signature - the contract is taken to
	// mean that one (it keeps the contract's name in obligations, pins and scopes).
	if len(ex.FuncsBaseline) == 0 {
		return
	}
	present := map[string]bool{}
	for _, f := range all {
		present[ex.FuncKey(f)] = true
	}
	var keys []string
	for k := range ex.Contracts {
		keys = append(keys, k)
	}
	sort.Strings(keys)
	for _, key := range keys {
		sig, known := ex.FuncsBaseline[key]
		if present[key] || !known {
			continue
		}
		pkg := ex.Contracts[key].Pkg
		var cands []*ssa.Function
		for _, f := range all {
			if f.Pkg == nil || f.Pkg.Pkg.Path() != pkg {
				continue
			}
			if _, aliased := ex.closureAlias[f]; aliased {
				continue
			}
			if _, old := ex.FuncsBaseline[ex.FuncKey(f)]; old {
				continue
			}
			if SigString(f) == sig {
				cands = append(cands, f)
			}
		}
		if len(cands) == 1 {
			ex.AliasNotes = append(ex.AliasNotes, fmt.Sprintf("the contract written for %s is taken to mean %s (new since the baseline, same signature: renamed)", shortName(key), shortName(ex.FuncKey(cands[0]))))
			ex.closureAlias[cands[0]] = key
			present[key] = true
		}
	}
}

// SigString: receiver and signature (types only) of a function, for the baseline of function names.
func SigString(f *ssa.Function) string {
	var b strings.Builder
	if r := f.Signature.Recv(); r != nil {
		b.WriteString("(" + r.Type().String() + ") ")
	}
	b.WriteString("func(")
	for i := 0; i < f.Signature.Params().Len(); i++ {
		if i > 0 {
			b.WriteString(", ")
		}
		b.WriteString(f.Signature.Params().At(i).Type().String())
	}
	b.WriteString(") (")
	for i := 0; i < f.Signature.Results().Len(); i++ {
		if i > 0 {
			b.WriteString(", ")
		}
		b.WriteString(f.Signature.Results().At(i).Type().String())
	}
	fmt.Fprintf(&b, ") variadic:%v free:%d", f.Signature.Variadic(), len(f.FreeVars))
	return b.String()
}

// LocalInfo: one source-level name of a function - a captured variable or a local - by position.
type LocalInfo struct {
	Kind string `json:"kind"` // param | free | local
	Name string `json:"name"`
	Type string `json:"type"`
}

// LocalsOf lists the captured variables and the source locals of a function in declaration order.
func (ex *Exec) LocalsOf(fn *ssa.Function) []LocalInfo {
	var out []LocalInfo
	for _, pr := range fn.Params {
		out = append(out, LocalInfo{"param", pr.Name(), pr.Type().String()})
	}
	for _, fv := range fn.FreeVars {
		out = append(out, LocalInfo{"free", fv.Name(), fv.Type().String()})
	}
	for _, b := range fn.Blocks {
		for _, in := range b.Instrs {
			if a, ok := in.(*ssa.Alloc); ok && a.Comment != "" {
				out = append(out, LocalInfo{"local", a.Comment, a.Type().String()})
			}
		}
	}
	return out
}

// renamedLocal: contracts name captured variables and source locals (loop invariants do). The baseline
// spec/locals_baseline.json records, for every function under contract, those names by position. When a name a
// contract uses no longer exists in the function, but the function still has the same number of names with the
// same types in the same order, the name at the same position is meant (the variable was renamed).
func (ex *Exec) renamedLocal(fn *ssa.Function, name string) (string, bool) {
	if o := fn.Origin(); o != nil {
		fn = o
	}
	base := ex.LocalsBaseline[ex.FuncKey(fn)]
	cur := ex.LocalsOf(fn)
	if len(base) == 0 || len(base) != len(cur) {
		return "", false
	}
	idx := -1
	for i := range base {
		if base[i].Kind != cur[i].Kind || base[i].Type != cur[i].Type {
			return "", false
		}
		if cur[i].Name == name {
			return "", false // the name still exists: nothing was renamed away
		}
		if base[i].Name == name {
			if idx >= 0 && cur[idx].Name != cur[i].Name {
				return "", false
			}
			idx = i
		}
	}
	if idx < 0 || cur[idx].Name == name {
		return "", false
	}
	note := fmt.Sprintf("%s: the contract's name %q is taken to mean %q (same position and type; renamed)", shortName(ex.FuncKey(fn)), name, cur[idx].Name)
	seen := false
	for _, n := range ex.AliasNotes {
		if n == note {
			seen = true
		}
	}
	if !seen {
		ex.AliasNotes = append(ex.AliasNotes, note)
	}
	return cur[idx].Name, true
}

// IndexFunctions builds the key -> function map for module functions (incl. closures, generic instances).
func (ex *Exec) IndexFunctions() {
	var addFn func(fn *ssa.Function)
	addFn = func(fn *ssa.Function) {
		if fn == nil {
			return
		}
		key := ex.FuncKey(fn)
		if _, ok := ex.FuncByKey[key]; !ok || fn.Origin() == nil {
			if fn.Blocks != nil || ex.FuncByKey[key] == nil {
				if fn.TypeParams().Len() == 0 || len(fn.TypeArgs()) > 0 {
					ex.FuncByKey[key] = fn
				}
			}
		}
		for _, a := range fn.AnonFuncs {
			addFn(a)
		}
	}
	for _, p := range ex.Prog.AllPackages() {
		if !strings.HasPrefix(p.Pkg.Path(), ex.ModulePath) {
			continue
		}
		for _, m := range p.Members {
			switch x := m.(type) {
			case *ssa.Function:
				addFn(x)
			case *ssa.Type:
				for _, t := range []types.Type{x.Type(), types.NewPointer(x.Type())} {
					ms := ex.Prog.MethodSets.MethodSet(t)
					for i := 0; i < ms.Len(); i++ {
						fn := ex.Prog.MethodValue(ms.At(i))
						if fn != nil && fn.Synthetic == "" {
							addFn(fn)
						}
					}
				}
			}
		}
	}
}

// SweepKeys: keys of every function and method of the module that is written in source
// (no closures: they are reached through their parents; no lemma functions, no init).
func (ex *Exec) SweepKeys() []string {
	var out []string
	for k, fn := range ex.FuncByKey {
		if fn.Parent() != nil || fn.Synthetic != "" || fn.Blocks == nil {
			continue
		}
		if fn.Name() == "init" || (strings.HasPrefix(fn.Name(), "lemma") && os.Getenv("GOVC_SWEEP_LEMMAS") == "") {
			continue
		}
		out = append(out, k)
	}
	sort.Strings(out)
	return out
}

// InstancesOf returns instantiations of a generic function reachable in the program.
func (ex *Exec) InstancesOf(key string) []*ssa.Function {
	var out []*ssa.Function
	seen := map[*ssa.Function]bool{}
	for fn := range allFunctions(ex.Prog) {
		if fn.Origin() != nil && ex.FuncKey(fn) == key && !seen[fn] {
			seen[fn] = true
			out = append(out, fn)
		}
	}
	sort.Slice(out, func(i, j int) bool { return out[i].String() < out[j].String() })
	return out
}

func allFunctions(prog *ssa.Program) map[*ssa.Function]bool {
	seen := map[*ssa.Function]bool{}
	var visit func(fn *ssa.Function)
	visit = func(fn *ssa.Function) {
		if fn == nil || seen[fn] {
			return
		}
		seen[fn] = true
		for _, b := range fn.Blocks {
			for _, in := range b.Instrs {
				var ops [10]*ssa.Value
				for _, op := range in.Operands(ops[:0]) {
					if f, ok := (*op).(*ssa.Function); ok {
						visit(f)
					}
				}
			}
		}
		for _, a := range fn.AnonFuncs {
			visit(a)
		}
	}
	for _, p := range prog.AllPackages() {
		for _, m := range p.Members {
			if f, ok := m.(*ssa.Function); ok {
				visit(f)
			}
			if t, ok := m.(*ssa.Type); ok {
				for _, tt := range []types.Type{t.Type(), types.NewPointer(t.Type())} {
					ms := prog.MethodSets.MethodSet(tt)
					for i := 0; i < ms.Len(); i++ {
						visit(prog.MethodValue(ms.At(i)))
					}
				}
			}
		}
	}
	return seen
}

// VerifyFunction generates the obligations of one function against its contract
// (or with an empty contract: run-time checks only).
func (ex *Exec) VerifyFunction(fn *ssa.Function, key string, ct *Contract) (res *FuncResult) {
	res = &FuncResult{Key: key, Pos: ex.posString(fn.Pos())}
	run := &funcRun{key: key, fn: fn, contract: ct, inlined: map[string]bool{}, libCalls: map[string]bool{},
		unmodelled: map[string]bool{}, contractsUsed: map[string]bool{}, trustedUsed: map[string]bool{},
		siteIDs: map[*ssa.Function]map[ssa.Instruction]int{}, ensuresAnteReached: map[string]bool{}, allocObjs: map[string]*Object{}, strLens: map[Key]int64{}}
	run.started = time.Now()
	ex.cur = run
	// memory watchdog for this function
	{
		var ms runtime.MemStats
		runtime.ReadMemStats(&ms)
		if ms.HeapAlloc > uint64(ex.MaxHeapMB)<<19 {
			runtime.GC()
			debug.FreeOSMemory()
		}
	}
	abortFlag.Store(0)
	stopWD := make(chan struct{})
	go func() {
		tk := time.NewTicker(100 * time.Millisecond)
		defer tk.Stop()
		for {
			select {
			case <-stopWD:
				return
			case <-tk.C:
				var ms runtime.MemStats
				runtime.ReadMemStats(&ms)
				if ms.HeapAlloc > uint64(ex.MaxHeapMB)<<20 {
					abortFlag.Store(1)
					return
				}
			}
		}
	}()
	defer func() { close(stopWD); abortFlag.Store(0) }()
	defer func() {
		if r := recover(); r != nil {
			switch e := r.(type) {
			case unsupportedErr:
				res.Unsupported = append(res.Unsupported, e.msg)
			case evalErr:
				res.Error = "contract error: " + e.msg
			default:
				if os.Getenv("GOVC_PANIC") != "" {
					panic(r)
				}
				res.Unsupported = append(res.Unsupported, fmt.Sprintf("engine limitation: %v", r))
			}
		}
		res.Obligations = run.obls
		res.Paths = run.paths
		res.Inlined = sortedSet(run.inlined)
		res.LibCalls = sortedSet(run.libCalls)
		res.Unmodelled = sortedSet(run.unmodelled)
		res.ContractsUsed = sortedSet(run.contractsUsed)
		res.TrustedUsed = sortedSet(run.trustedUsed)
		res.Returns = run.reachedReturn
		ex.cur = nil
	}()
	if fn.Blocks == nil {
		ex.unsupported("function %s has no body", key)
	}
	st := ex.newState()
	st.paramVals = map[string]Value{}
	fr := &Frame{fn: fn, block: fn.Blocks[0], regs: map[ssa.Value]Value{}, visits: map[*ssa.BasicBlock]int{}}
	names := ex.paramNames(fn, ct)
	for i, p := range fn.Params {
		v := ex.symbolicValue(st, p.Type(), names[i], 0)
		if i == 0 && ct == nil && fn.Signature.Recv() != nil {
			// zero-annotation sweep: a method is called on a non-nil receiver
			if pv, ok := v.(*VPtr); ok {
				pv.Nil = False
			}
		}
		fr.regs[p] = v
		st.paramVals[names[i]] = v
	}
	for i, fv := range fn.FreeVars {
		// free variables of a closure under contract: pointers to captured cells
		v := ex.symbolicValue(st, fv.Type(), fv.Name(), 0)
		if p, ok := v.(*VPtr); ok {
			p.Nil = False
			// attr freevar.<name> = <function key>: the captured variable holds that (closure-free) function
			// of the enclosing function (assigned once there); calls through it use that function's contract
			if ct != nil && p.Obj != nil {
				if fk := ct.Attrs["freevar."+fv.Name()]; fk != "" {
					if target, ok := ex.FuncByKey[ct.Pkg+"."+fk]; ok && len(target.FreeVars) == 0 {
						st.mem[p.Obj] = &VFunc{Fn: target, Nil: False, Sym: fv.Name()}
					} else {
						ex.unsupported("attr freevar.%s: function %s not found or it captures variables", fv.Name(), fk)
					}
				}
			}
		}
		if p, ok := v.(*VPtr); ok && p.Obj != nil && capturesReceiver(fn, i) {
			// the captured variable is the receiver of the enclosing method, never assigned there: a method is
			// called on a non-nil receiver (the assumption of the sweep; enclosing methods under contract require it)
			if rp, ok := st.mem[p.Obj].(*VPtr); ok {
				rp.Nil = False
			}
		}
		fr.regs[fv] = v
		st.paramVals[fv.Name()] = v
		if p, ok := v.(*VPtr); ok && p.Obj != nil {
			// in contracts a captured variable denotes its content
			st.paramVals[fv.Name()] = st.mem[p.Obj]
		}
		_ = i
	}
	st.frames = []*Frame{fr}
	ex.setupGhost(st)
	if ct != nil {
		for _, rq := range ct.Requires {
			st.assume(ex.evalBool(st, rq.E, ex.contractEnv(st, nil), rq))
		}
	}
	// entry snapshot
	entry := st.clone()
	entry.frames = nil
	st.entry = entry

	work := []*State{st}
	pools := map[string][]*State{}
	for len(work) > 0 || len(pools) > 0 {
		if len(work) == 0 {
			// release the pool whose states have made the least progress
			bestKey := ""
			best := -1
			for k, ss := range pools {
				min := ss[0].steps
				for _, s := range ss {
					if s.steps < min {
						min = s.steps
					}
				}
				if best < 0 || min < best || (min == best && k < bestKey) {
					best, bestKey = min, k
				}
			}
			merged := ex.mergeStates(pools[bestKey])
			run.merges += len(pools[bestKey]) - len(merged)
			delete(pools, bestKey)
			work = append(work, merged...)
			continue
		}
		s := work[len(work)-1]
		work = work[:len(work)-1]
		run.paths++
		if run.paths > ex.MaxPaths {
			ex.unsupported("more than %d paths", ex.MaxPaths)
		}
		succ, parked := ex.runPath(s)
		if parked {
			run.paths--
			k := s.joinKey()
			pools[k] = append(pools[k], s)
			continue
		}
		work = append(work, succ...)
	}
	return res
}

// runPath executes until the path ends or splits; returns successor states.
func (ex *Exec) runPath(st *State) (succ []*State, parked bool) {
	defer func() {
		if r := recover(); r != nil {
			if _, ok := r.(parkRequest); ok {
				parked = true
				return
			}
			if sr, ok := r.(splitRequest); ok {
				succ = sr.states
				ex.cur.paths-- // a split is not a new path by itself
				return
			}
			if _, ok := r.(pathEnd); ok {
				succ = nil
				return
			}
			panic(r)
		}
	}()
	steps := 0
	for {
		steps++
		if steps > 2000000 {
			ex.unsupported("step limit exceeded")
		}
		st.steps++
		checkAbort()
		if steps&1023 == 0 {
			if ex.GenBudgetS > 0 && time.Since(ex.cur.started).Seconds() > float64(ex.GenBudgetS) {
				ex.unsupported("VC generation exceeded the budget of %d s (path explosion)", ex.GenBudgetS)
			}
			if len(ex.cur.obls) > ex.MaxObls {
				ex.unsupported("more than %d query instances generated (path explosion)", ex.MaxObls)
			}
		}
		if !ex.step(st) {
			return nil, false
		}
	}
}

func sortedSet(m map[string]bool) []string {
	out := []string{}
	for k := range m {
		out = append(out, k)
	}
	sort.Strings(out)
	return out
}

// checkEnsures emits the postcondition obligations at a return of the function under verification.
func (ex *Exec) checkEnsures(st *State, in *ssa.Return) {
	ct := ex.cur.contract
	if ct == nil {
		return
	}
	env := ex.contractEnv(st, nil)
	// frame of the ghost state: a ghost variable that is not listed in `modifies` is unchanged
	// (a caller that applies this contract havocs only the listed ones)
	mod := map[string]bool{}
	for _, m := range ct.Modifies {
		if qn, ok := QualifiedName(m.E); ok {
			mod[qn] = true
		}
	}
	for _, n := range ex.Spec.GhostOrder {
		if mod[n] {
			continue
		}
		cur, ok := st.ghost[n].(*Term)
		if !ok {
			continue
		}
		init := Var(n+"@0", ex.Spec.Ghosts[n])
		if Equal(cur, init) {
			continue
		}
		ex.oblige(st, "frame", "frame:"+n, Eq(cur, init), in.Pos(), "ghost variable "+n+" is not in the modifies clause")
	}
	for _, en := range ct.Ensures {
		g := ex.evalBool(st, en.E, env, en)
		ex.oblige(st, "ensures", "ensures:"+en.Label, g, in.Pos(), en.Src)
		// vacuity guard: the antecedent of an implication clause must be reachable on some path
		ante := True
		if b, ok := en.E.(*EBin); ok && b.Op == "==>" {
			ante = ex.evalBool(st, b.L, env, en)
		}
		ex.cur.obls = append(ex.cur.obls, &Obligation{Func: ex.cur.key, Name: "cover:" + en.Label, Class: "cover", Cover: true,
			Hyps: append([]*Term(nil), st.pc...), Goal: Not(ante), Pos: ex.posString(in.Pos()), Detail: en.Src})
	}
}

// ---------------------------------------------------------------------------
// modular calls

func (ex *Exec) callWithContract(st *State, instr ssa.Instruction, callee *ssa.Function, ct *Contract, args []Value) Value {
	return ex.callWithContractEnv(st, instr, callee, ct, args, nil)
}

// callWithContractEnv: closures under contract: captured variables are visible in the contract
// by name and denote the current content of the captured cell.
func (ex *Exec) callWithContractEnv(st *State, instr ssa.Instruction, callee *ssa.Function, ct *Contract, args []Value, closureEnv []Value) Value {
	names := ex.paramNames(callee, ct)
	all := append([]Value(nil), args...)
	for i, fv := range callee.FreeVars {
		if i < len(closureEnv) {
			names = append(names, fv.Name())
			if p, ok := closureEnv[i].(*VPtr); ok && p.Obj != nil {
				all = append(all, ex.specLoad(st, p))
			} else {
				all = append(all, closureEnv[i])
			}
		}
	}
	saved := ex.applyingFn
	ex.applyingFn = callee
	defer func() { ex.applyingFn = saved }()
	return ex.applyContract(st, instr, names, ex.resultNames(callee, ct), callee.Signature, ct, all)
}

func (ex *Exec) applyContract(st *State, instr ssa.Instruction, names []string, resNames []string, sig *types.Signature, ct *Contract, args []Value) Value {
	env := &Env{vars: map[string]Value{}, defs: ct.Defines, pkg: ct.Pkg}
	for i, n := range names {
		if i < len(args) {
			env.vars[n] = args[i]
		}
	}
	site := ex.siteName(st, instr, "call")
	short := shortName(ct.Key())
	for _, rq := range ct.Requires {
		g := ex.evalBool(st, rq.E, env, rq)
		pos := token.NoPos
		if instr != nil {
			pos = instr.Pos()
		}
		ex.oblige(st, "requires", fmt.Sprintf("requires:%s.%s@%s", short, rq.Label, site), g, pos, rq.Src)
		st.assume(g)
	}
	// snapshot for old()
	pre := st.clone()
	pre.frames = nil
	env.old = pre
	allocBefore := st.alloc
	// frame: havoc what the callee may modify
	for _, m := range ct.Modifies {
		if qn, ok := QualifiedName(m.E); ok {
			if g, isGhost := st.ghost[qn]; isGhost {
				st.ghost[qn] = ex.fresh(qn, g.(*Term).Sort)
				continue
			}
		}
		v := ex.evalIn(st, m.E, env, m)
		ex.havocModified(st, v, instr)
	}
	// results
	var results []Value
	base := ex.fresh("ret."+shortName(ct.Func), SInt).Name
	na := ex.fresh("alloc", SInt)
	st.assume(Le(allocBefore, na))
	st.alloc = na
	for i := 0; i < sig.Results().Len(); i++ {
		rt := sig.Results().At(i).Type()
		nm := fmt.Sprintf("%s.%s", base, resNames[i])
		var v Value
		if dyn, ok := ct.Attrs[fmt.Sprintf("result%d.dyn", i)]; ok {
			v = ex.ifaceWithAlts(st, dyn, nm)
		} else {
			v = ex.symbolicValueAt(st, rt, nm, allocBefore)
		}
		results = append(results, v)
		env.vars[resNames[i]] = v
	}
	env.freshBase = allocBefore
	for _, r := range results {
		ex.nameResultRows(st, r)
	}
	for _, en := range ct.Ensures {
		st.assume(ex.evalBool(st, en.E, env, en))
	}
	switch len(results) {
	case 0:
		return &VTuple{}
	case 1:
		return results[0]
	}
	return &VTuple{Vals: results}
}

// symbolicValueAt: like symbolicValue, but slices/maps may refer to memory allocated by the callee
// (refs below the new allocation counter).
func (ex *Exec) symbolicValueAt(st *State, t types.Type, name string, allocBefore *Term) Value {
	saved := st.alloc0
	st.alloc0 = st.alloc
	v := ex.symbolicValue(st, t, name, 0)
	st.alloc0 = saved
	markFresh(v)
	return v
}

// markFresh: pointer results of a contract call are new executor objects.
func markFresh(v Value) {
	switch x := v.(type) {
	case *VPtr:
		if x.Obj != nil {
			x.Obj.Fresh = true
		}
	case *VStruct:
		for _, f := range x.Fields {
			markFresh(f)
		}
	case *VTuple:
		for _, f := range x.Vals {
			markFresh(f)
		}
	}
}

func (ex *Exec) ifaceWithAlts(st *State, spec string, name string) Value {
	tag := Var(name+".$tag", SInt)
	iv := &VIface{Tag: tag}
	conds := []*Term{}
	for _, part := range strings.Split(spec, "|") {
		part = strings.TrimSpace(part)
		if part == "nil" {
			conds = append(conds, Eq(tag, IntLit(0)))
			continue
		}
		t := ex.parseTypeName(part)
		if t == nil {
			panic(evalErr{"unknown type in result dyn attribute: " + part})
		}
		saved := st.alloc0
		st.alloc0 = st.alloc
		val := ex.symbolicValue(st, t, name+"."+part, 0)
		st.alloc0 = saved
		markFresh(val)
		if p, ok := val.(*VPtr); ok {
			p.Nil = False
		}
		iv.Alts = append(iv.Alts, IfaceAlt{T: t, Val: val})
		conds = append(conds, Eq(tag, IntLit(int64(ex.typeID(t)))))
	}
	st.assume(Or(conds...))
	return iv
}

func (ex *Exec) havocModified(st *State, v Value, instr ssa.Instruction) {
	switch x := v.(type) {
	case *VSlice:
		// the callee writes the caller's row: the caller must itself be allowed to
		ex.checkWritable(st, x.Ref, instr)
		for _, key := range sortedKeys(st.heaps) {
			h := st.heaps[key]
			if strings.HasPrefix(key, "H") {
				st.heaps[key] = Store(h, x.Ref, ex.fresh("row", h.Sort.Elem()))
			}
		}
		// make sure the primary heap exists even if not yet touched
		if _, ok := leafSort(x.Elem); ok {
			lf := Leaf{"", mustLeafSort(x.Elem), x.Elem}
			key := heapKey(x.Elem, lf)
			if _, ok := st.heaps[key]; !ok {
				h := st.heap(key, HeapOf(lf.Sort))
				st.heaps[key] = Store(h, x.Ref, ex.fresh("row", h.Sort.Elem()))
			}
		}
	case *VMap:
		ex.checkWritable(st, x.Ref, instr)
		ex.havocReachable(st, x)
	case *VPtr:
		if x.Obj != nil {
			cur := ex.loadPath(st.mem[x.Obj], x.Path)
			st.mem[x.Obj] = ex.storePath(st.mem[x.Obj], x.Path, ex.havocValue(st, x.T, cur, x.Obj.Name))
		}
	case *Term:
		// ghost variable named by a spec constant: handled by ghost hooks
	default:
		// a struct value etc: havoc everything reachable
		ex.havocReachable(st, v)
	}
}

func mustLeafSort(t types.Type) Sort {
	s, _ := leafSort(t)
	return s
}

// callInterfaceMethod: call through a symbolic interface value: the contract on the interface method.
func (ex *Exec) callInterfaceMethod(st *State, instr ssa.Instruction, c *ssa.CallCommon, recv *VIface, args []Value) Value {
	// contract key: <pkg>.<Iface>.<Method>
	var key string
	if n, ok := c.Value.Type().(*types.Named); ok && n.Obj().Pkg() != nil {
		key = n.Obj().Pkg().Path() + "." + n.Obj().Name() + "." + c.Method.Name()
	} else {
		key = "iface." + c.Method.Name()
	}
	sig := c.Method.Type().(*types.Signature)
	if h, ok := ifaceMethodModels[key]; ok {
		return h(ex, st, instr, recv, args)
	}
	if ct, ok := ex.Contracts[key]; ok {
		ex.cur.contractsUsed[key] = true
		ex.cur.trustedUsed[key+" (interface contract; implementations verified separately or assumed)"] = true
		res := sig.Results()
		resNames := make([]string, res.Len())
		for i := range resNames {
			resNames[i] = fmt.Sprintf("result%d", i)
			if i < len(ct.Results) {
				resNames[i] = ct.Results[i]
			}
		}
		names := make([]string, sig.Params().Len())
		for i := range names {
			names[i] = sig.Params().At(i).Name()
			if i < len(ct.Params) {
				names[i] = ct.Params[i]
			}
		}
		return ex.applyContract(st, instr, names, resNames, sig, ct, args)
	}
	if c.Method.Name() == "Error" && types.Identical(c.Value.Type().Underlying(), types.Universe.Lookup("error").Type().Underlying()) {
		return ex.fresh("errstr", SStr)
	}
	ex.cur.unmodelled["interface method "+key] = true
	return ex.havocCall(st, instr, sig, args, key)
}

var ifaceMethodModels = map[string]func(ex *Exec, st *State, instr ssa.Instruction, recv *VIface, args []Value) Value{}

// callSymbolicFunc: call of a function-typed parameter.
func (ex *Exec) callSymbolicFunc(st *State, instr ssa.Instruction, c *ssa.CallCommon, f *VFunc, args []Value) Value {
	sig := c.Signature()
	if h, ok := symFuncModels[f.Sym]; ok {
		return h(ex, st, instr, f, args)
	}
	// pure uninterpreted application for scalar/slice arguments and a boolean result: a predicate
	// callback (assumed not to modify its arguments); the same term as f(args) in a contract
	if sig.Results().Len() == 1 && isBool(sig.Results().At(0).Type()) {
		var ts []*Term
		okArgs := true
		for _, a := range args {
			switch x := a.(type) {
			case *Term:
				ts = append(ts, x)
			case *VSlice:
				ts = append(ts, x.Ref, x.Off, x.Len)
			default:
				okArgs = false
			}
		}
		if okArgs {
			ex.cur.libCalls["function-typed parameter "+f.Sym+": a pure predicate of its arguments"] = true
			return App("fn."+f.Sym, SBool, ts...)
		}
	}
	ex.cur.unmodelled["function value "+f.Sym] = true
	return ex.havocCall(st, instr, sig, args, "fn."+f.Sym)
}

var symFuncModels = map[string]func(ex *Exec, st *State, instr ssa.Instruction, f *VFunc, args []Value) Value{}

// setupGhost initialises ghost state for a function run.
func (ex *Exec) setupGhost(st *State) {
	for _, n := range ex.Spec.GhostOrder {
		st.ghost[n] = Var(n+"@0", ex.Spec.Ghosts[n])
	}
	for _, h := range ghostInit {
		h(ex, st)
	}
}

var ghostInit []func(ex *Exec, st *State)

// nameResultRows: the heap rows of slices returned by a contract call get a name
// (row == select(H, ref) is assumed once), which keeps later reads small.
func (ex *Exec) nameResultRows(st *State, v Value) {
	switch x := v.(type) {
	case *VSlice:
		leaves, err := ex.flattenType(x.Elem)
		if err != nil {
			return
		}
		for _, lf := range leaves {
			key := heapKey(x.Elem, lf)
			h := st.heap(key, HeapOf(lf.Sort))
			if h.Op == "var" {
				continue
			}
			row := ex.fresh("row", ArrayOf(lf.Sort))
			st.assume(Eq(row, Select(h, x.Ref)))
			st.heaps[key] = Store(h, x.Ref, row)
		}
	case *VStruct:
		for _, f := range x.Fields {
			ex.nameResultRows(st, f)
		}
	case *VTuple:
		for _, f := range x.Vals {
			ex.nameResultRows(st, f)
		}
	case *VIface:
		for _, a := range x.Alts {
			ex.nameResultRows(st, a.Val)
		}
	case *VPtr:
		if x.Obj != nil {
			if cur, ok := st.mem[x.Obj]; ok {
				ex.nameResultRows(st, ex.loadPath(cur, x.Path))
			}
		}
	}
}

// capturesReceiver: free variable i of the closure fn is the cell of the receiver of the (outermost) enclosing
// method, and that cell is stored to exactly once - with the receiver parameter itself.
func capturesReceiver(fn *ssa.Function, i int) bool {
	for depth := 0; depth < 8; depth++ {
		parent := fn.Parent()
		if parent == nil {
			return false
		}
		var binding ssa.Value
		for _, b := range parent.Blocks {
			for _, ins := range b.Instrs {
				if mc, ok := ins.(*ssa.MakeClosure); ok && mc.Fn == fn && i < len(mc.Bindings) {
					binding = mc.Bindings[i]
				}
			}
		}
		switch b := binding.(type) {
		case *ssa.Alloc:
			if parent.Signature.Recv() == nil || len(parent.Params) == 0 || b.Referrers() == nil {
				return false
			}
			stores := 0
			for _, r := range *b.Referrers() {
				if st, ok := r.(*ssa.Store); ok && st.Addr == b {
					if st.Val != parent.Params[0] {
						return false
					}
					stores++
				}
			}
			return stores == 1 && !storesToFreeVar(parent, parent.Params[0].Name())
		case *ssa.FreeVar:
			idx := -1
			for k, fv := range parent.FreeVars {
				if fv == b {
					idx = k
				}
			}
			if idx < 0 {
				return false
			}
			fn, i = parent, idx
		default:
			return false
		}
	}
	return false
}

// storesToFreeVar: some function nested in fn assigns a captured variable of that name (conservative, by name)
func storesToFreeVar(fn *ssa.Function, name string) bool {
	for _, an := range fn.AnonFuncs {
		for _, b := range an.Blocks {
			for _, ins := range b.Instrs {
				if st, ok := ins.(*ssa.Store); ok {
					if fv, ok := st.Addr.(*ssa.FreeVar); ok && fv.Name() == name {
						return true
					}
				}
			}
		}
		if storesToFreeVar(an, name) {
			return true
		}
	}
	return false
}
