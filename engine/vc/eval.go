package vc

import (
	"fmt"
	"go/types"
	"strings"

	"golang.org/x/tools/go/ssa"
)

// Env: evaluation environment of a contract expression.
type Env struct {
	vars      map[string]Value
	fr        *Frame          // frame of the function under verification (for source-level locals), may be nil
	lc        *loopCtx        // active loop (for $pos, $rangeindex)
	old       *State          // state used for old(...)
	spec      bool            // evaluating a spec-file expression (no Go values)
	defs      map[string]Expr // contract-level definitions (macros)
	pkg       string          // package of the contract (for package-level macros)
	freshBase *Term           // allocation counter at the start of the call whose contract is evaluated
	renaming  bool            // resolving a renamed local (see renamedLocal)
}

type vNil struct{}

func (ex *Exec) contractEnv(st *State, lc *loopCtx) *Env {
	env := &Env{vars: map[string]Value{}, lc: lc, old: st.entry}
	if ex.cur != nil && ex.cur.contract != nil {
		env.defs = ex.cur.contract.Defines
		env.pkg = ex.cur.contract.Pkg
	}
	for k, v := range st.paramVals {
		env.vars[k] = v
	}
	if len(st.frames) > 0 {
		env.fr = st.frames[0]
		// a captured variable of a closure under contract denotes its CURRENT content (the cell may have been
		// assigned, or havocked at a loop head); old(x) is evaluated in the entry state
		for _, fv := range env.fr.fn.FreeVars {
			if p, ok := env.fr.regs[fv].(*VPtr); ok && p.Obj != nil {
				if cur, ok := st.mem[p.Obj]; ok {
					env.vars[fv.Name()] = cur
				}
			}
		}
	}
	if st.results != nil && ex.cur != nil {
		names := ex.resultNames(ex.cur.fn, ex.cur.contract)
		for i, n := range names {
			if i < len(st.results) && n != "" {
				env.vars[n] = st.results[i]
			}
		}
	}
	return env
}

func (ex *Exec) resultNames(fn *ssa.Function, c *Contract) []string {
	res := fn.Signature.Results()
	names := make([]string, res.Len())
	for i := 0; i < res.Len(); i++ {
		names[i] = res.At(i).Name()
		if names[i] == "" || names[i] == "_" {
			if res.Len() == 1 {
				names[i] = "result"
			} else {
				names[i] = fmt.Sprintf("result%d", i)
			}
		}
	}
	if c != nil && len(c.Results) > 0 {
		for i := range names {
			if i < len(c.Results) {
				names[i] = c.Results[i]
			}
		}
	}
	return names
}

func (ex *Exec) paramNames(fn *ssa.Function, c *Contract) []string {
	names := make([]string, len(fn.Params))
	for i, p := range fn.Params {
		names[i] = p.Name()
	}
	if c != nil && len(c.Params) > 0 {
		for i := range names {
			if i < len(c.Params) {
				names[i] = c.Params[i]
			}
		}
	}
	return names
}

type evalErr struct{ msg string }

func (ex *Exec) evalFail(cl *Clause, f string, a ...interface{}) {
	where := ""
	if cl != nil {
		where = fmt.Sprintf("%s:%d: ", cl.File, cl.Line)
	}
	panic(evalErr{where + fmt.Sprintf(f, a...)})
}

func (ex *Exec) evalBool(st *State, e Expr, env *Env, cl *Clause) *Term {
	v := ex.evalIn(st, e, env, cl)
	t, ok := v.(*Term)
	if !ok || t.Sort != SBool {
		ex.evalFail(cl, "boolean expected: %s", ExprString(e))
	}
	return t
}

func (ex *Exec) evalTerm(st *State, e Expr, env *Env, cl *Clause) *Term {
	v := ex.evalIn(st, e, env, cl)
	t, ok := v.(*Term)
	if !ok {
		ex.evalFail(cl, "scalar expected: %s (got %T)", ExprString(e), v)
	}
	return t
}

var quantN int

// evalIn evaluates e reading heaps and memory from st.
func (ex *Exec) evalIn(st *State, e Expr, env *Env, cl *Clause) Value {
	switch x := e.(type) {
	case *EInt:
		return BigLit(x.V)
	case *EBool:
		return BoolLit(x.V)
	case *EStr:
		return ex.strLit(x.S)
	case *EIdent:
		return ex.evalIdent(st, x.Name, env, cl)
	case *EOld:
		if env.old == nil {
			return ex.evalIn(st, x.X, env, cl)
		}
		// evaluate in the entry state but keep assumptions flowing into st
		tmp := *env.old
		tmp.pc, tmp.seen = st.pc, st.seen
		v := ex.evalIn(&tmp, x.X, env, cl)
		st.pc = tmp.pc
		return v
	case *EUn:
		v := ex.evalIn(st, x.X, env, cl)
		switch x.Op {
		case "!":
			return Not(v.(*Term))
		case "-":
			return Neg(v.(*Term))
		case "*":
			p, ok := v.(*VPtr)
			if !ok {
				ex.evalFail(cl, "dereference of non-pointer %s", ExprString(x.X))
			}
			return ex.specLoad(st, p)
		}
	case *EBin:
		return ex.evalBin(st, x, env, cl)
	case *ECond:
		c := ex.evalBool(st, x.C, env, cl)
		a := ex.evalIn(st, x.A, env, cl)
		b := ex.evalIn(st, x.B, env, cl)
		at, ok1 := a.(*Term)
		bt, ok2 := b.(*Term)
		if !ok1 || !ok2 {
			ex.evalFail(cl, "conditional on non-scalar values")
		}
		return Ite(c, at, bt)
	case *EQuant:
		inner := &Env{vars: map[string]Value{}, fr: env.fr, lc: env.lc, old: env.old, spec: env.spec, freshBase: env.freshBase, defs: env.defs, pkg: env.pkg}
		for k, v := range env.vars {
			inner.vars[k] = v
		}
		var bound []*Term
		var guards []*Term
		for _, b := range x.Vars {
			s, err := sortOfTypeName(ex.Spec, b.Type)
			if err != nil {
				// Go integer type names give range guards
				if bt := basicByName(b.Type); bt != nil {
					s = SInt
					quantN++
					v := Var(fmt.Sprintf("%s!q%d", b.Name, quantN), s)
					bound = append(bound, v)
					inner.vars[b.Name] = v
					guards = append(guards, rangeFact(bt, v))
					continue
				}
				ex.evalFail(cl, "%v", err)
			}
			quantN++
			v := Var(fmt.Sprintf("%s!q%d", b.Name, quantN), s)
			bound = append(bound, v)
			inner.vars[b.Name] = v
		}
		// assumptions generated while evaluating under the binder must not leak bound variables
		savedPC, savedSeen := st.pc, st.seen
		st.seen = newSeen(savedSeen)
		body := ex.evalBool(st, x.Body, inner, cl)
		newFacts := st.pc[len(savedPC):]
		st.pc, st.seen = savedPC, savedSeen
		var local []*Term
		for _, f := range newFacts {
			if mentionsAny(f, bound) {
				local = append(local, f)
			} else {
				st.assume(f)
			}
		}
		// type-range facts about heap reads under the binder are always true in real
		// executions; they are dropped (neither assumed nor required)
		_ = local
		g := And(guards...)
		if x.Kind == "forall" {
			return Forall(bound, Implies(g, body))
		}
		return Exists(bound, And(g, body))
	case *EIndex:
		base := ex.evalIn(st, x.X, env, cl)
		idx := ex.evalIn(st, x.I, env, cl)
		return ex.specIndex(st, base, idx, cl)
	case *ESlice:
		base := ex.evalIn(st, x.X, env, cl)
		s, ok := base.(*VSlice)
		if !ok {
			ex.evalFail(cl, "slice expression on %T", base)
		}
		lo := IntLit(0)
		hi := s.Len
		if x.Lo != nil {
			lo = ex.evalTerm(st, x.Lo, env, cl)
		}
		if x.Hi != nil {
			hi = ex.evalTerm(st, x.Hi, env, cl)
		}
		return &VSlice{Ref: s.Ref, Off: Add(s.Off, lo), Len: Sub(hi, lo), Cap: Sub(s.Cap, lo), Elem: s.Elem}
	case *EField:
		// qualified constant or spec constant?
		if qn, ok := QualifiedName(x); ok {
			if g, isGhost := st.ghost[qn]; isGhost {
				return g
			}
			if _, isVar := env.vars[strings.SplitN(qn, ".", 2)[0]]; !isVar {
				if s, ok := ex.Spec.Consts[qn]; ok {
					return Var(qn, s)
				}
				if sf, ok := ex.Spec.Funcs[qn]; ok && len(sf.Params) == 0 {
					return App(qn, sf.Ret)
				}
			}
		}
		base := ex.evalIn(st, x.X, env, cl)
		return ex.specField(st, base, x.Name, cl)
	case *ECall:
		return ex.evalCall(st, x, env, cl)
	}
	ex.evalFail(cl, "cannot evaluate %s", ExprString(e))
	return nil
}

func mentionsAny(t *Term, vars []*Term) bool {
	found := false
	t.Walk(func(x *Term) {
		if x.Op == "var" {
			for _, v := range vars {
				if v.Name == x.Name {
					found = true
				}
			}
		}
	})
	return found
}

func basicByName(n string) types.Type {
	for _, b := range types.Typ {
		if b.Name() == n && b.Info()&types.IsInteger != 0 {
			return b
		}
	}
	if n == "byte" {
		return types.Typ[types.Uint8]
	}
	if n == "rune" {
		return types.Typ[types.Int32]
	}
	return nil
}

func (ex *Exec) evalIdent(st *State, name string, env *Env, cl *Clause) Value {
	if v, ok := env.vars[name]; ok {
		return v
	}
	if name == "nil" {
		return vNil{}
	}
	if d, ok := env.defs[name]; ok {
		return ex.evalIn(st, d, env, cl)
	}
	if s, ok := ex.Spec.Consts[name]; ok {
		return Var(name, s)
	}
	if g, ok := st.ghost[name]; ok {
		return g
	}
	if strings.HasPrefix(name, "$") && env.fr != nil {
		// loop specials
		if env.lc != nil {
			if name == "$pos" {
				for b := range env.lc.info.body {
					for _, in := range b.Instrs {
						if nx, ok := in.(*ssa.Next); ok {
							if it, ok := env.fr.regs[nx.Iter].(*VIter); ok && it.Cell != nil {
								return st.mem[it.Cell]
							}
						}
					}
				}
			}
			for _, in := range env.lc.head.Instrs {
				if phi, ok := in.(*ssa.Phi); ok && "$"+phi.Comment == name {
					return env.fr.regs[phi]
				}
			}
		}
		ex.evalFail(cl, "unknown loop variable %s", name)
	}
	if env.fr != nil {
		// source-level local of the function under verification
		var found Value
		n := 0
		// several live declarations of the same name (the hidden index variables of two range loops, a name
		// re-declared in a later block): inside a loop specification the one the loop itself assigns is meant
		var inLoop map[*ssa.Alloc]bool
		if env.lc != nil {
			cnt := 0
			for _, b := range env.fr.fn.Blocks {
				for _, in := range b.Instrs {
					if a, ok := in.(*ssa.Alloc); ok && a.Comment == name {
						if _, live := env.fr.regs[a]; live {
							cnt++
						}
					}
				}
			}
			if cnt > 1 {
				inLoop = map[*ssa.Alloc]bool{}
				for b := range env.lc.info.body {
					for _, in := range b.Instrs {
						if s, ok := in.(*ssa.Store); ok {
							if a, ok := s.Addr.(*ssa.Alloc); ok && a.Comment == name {
								inLoop[a] = true
							}
						}
					}
				}
				if len(inLoop) != 1 {
					inLoop = nil
				}
			}
		}
		for _, b := range env.fr.fn.Blocks {
			for _, in := range b.Instrs {
				if a, ok := in.(*ssa.Alloc); ok && a.Comment == name {
					if inLoop != nil && !inLoop[a] {
						continue
					}
					if pv, ok := env.fr.regs[a]; ok {
						p := pv.(*VPtr)
						if p.Obj != nil {
							found = st.mem[p.Obj]
						} else if p.ElemRef != nil {
							at := p.T.Underlying().(*types.Array)
							found = &VSlice{Ref: p.ElemRef, Off: IntLit(0), Len: IntLit(at.Len()), Cap: IntLit(at.Len()), Elem: at.Elem()}
						}
						n++
					}
				}
			}
		}
		if n == 1 {
			return found
		}
		if n > 1 {
			ex.evalFail(cl, "ambiguous local variable %q (%d live declarations)", name, n)
		}
	}
	var nameFn *ssa.Function
	if env.fr != nil {
		nameFn = env.fr.fn
	} else if ex.applyingFn != nil {
		nameFn = ex.applyingFn // a contract applied at a call site: the callee's names
	}
	if nameFn != nil && !env.renaming {
		if other, ok := ex.renamedLocal(nameFn, name); ok {
			env.renaming = true
			defer func() { env.renaming = false }()
			return ex.evalIdent(st, other, env, cl)
		}
	}
	ex.evalFail(cl, "unknown identifier %q", name)
	return nil
}

// specLoad: contract-level dereference (no nil obligation; *p of a nil pointer is unspecified).
func (ex *Exec) specLoad(st *State, p *VPtr) Value {
	if p.Obj != nil {
		return ex.loadPath(st.mem[p.Obj], p.Path)
	}
	if p.ElemRef != nil && p.ElemIdx != nil {
		return ex.loadPath(ex.heapLoad(st, p.ElemT, p.ElemRef, p.ElemIdx), p.Path)
	}
	return ex.zeroValue(p.T)
}

func (ex *Exec) specIndex(st *State, base, idx Value, cl *Clause) Value {
	switch b := base.(type) {
	case *Term:
		i := idx.(*Term)
		if b.Sort == SStr {
			return App("sat", SInt, b, i)
		}
		if strings.HasPrefix(string(b.Sort), "(Array") {
			return Select(b, i)
		}
	case *VSlice:
		return ex.heapLoad(st, b.Elem, b.Ref, Idx(b.Off, idx.(*Term)))
	case *VMap:
		return ex.mapGet(st, st, b, idx.(*Term))
	case *VPtr:
		return ex.specIndex(st, ex.specLoad(st, b), idx, cl)
	case *VTuple:
		if i, ok := idx.(*Term).Int64(); ok && int(i) < len(b.Vals) {
			return b.Vals[i]
		}
	}
	ex.evalFail(cl, "cannot index %T", base)
	return nil
}

func (ex *Exec) specField(st *State, base Value, name string, cl *Clause) Value {
	switch b := base.(type) {
	case *VStruct:
		for i, n := range b.Names {
			if n == name {
				return b.Fields[i]
			}
		}
		// promoted fields through embedded structs
		for i, n := range b.Names {
			if inner, ok := b.Fields[i].(*VStruct); ok {
				_ = n
				for j, m := range inner.Names {
					if m == name {
						return inner.Fields[j]
					}
				}
				for _, f2 := range inner.Fields {
					if in2, ok := f2.(*VStruct); ok {
						for j, m := range in2.Names {
							if m == name {
								return in2.Fields[j]
							}
						}
					}
				}
			}
		}
		ex.evalFail(cl, "no field %q in %s", name, b.T)
	case *VPtr:
		if name == "$nil" {
			return b.Nil
		}
		return ex.specField(st, ex.specLoad(st, b), name, cl)
	case *VSlice:
		switch name {
		case "$ref":
			return b.Ref
		case "$off":
			return b.Off
		case "$len":
			return b.Len
		case "$cap":
			return b.Cap
		}
	case *VMap:
		if name == "$ref" {
			return b.Ref
		}
	case *VIface:
		switch name {
		case "$tag":
			return b.Tag
		case "$pay":
			if b.Pay != nil {
				return b.Pay
			}
		}
		// field of the single concrete alternative
		if len(b.Alts) == 1 {
			return ex.specField(st, b.Alts[0].Val, name, cl)
		}
	}
	ex.evalFail(cl, "cannot select field %q of %T", name, base)
	return nil
}

func (ex *Exec) evalBin(st *State, x *EBin, env *Env, cl *Clause) Value {
	switch x.Op {
	case "&&", "||", "==>", "<==>":
		l := ex.evalBool(st, x.L, env, cl)
		// a literally false guard: the right operand may not even be well defined (chansent(i) without a send)
		if l.IsFalse() && (x.Op == "==>" || x.Op == "&&") {
			if x.Op == "==>" {
				return True
			}
			return False
		}
		// short-circuit structure is irrelevant for terms, but facts generated while
		// evaluating the right operand hold only under the left one: keep them global
		// (they are type-range facts about heap reads).
		r := ex.evalBool(st, x.R, env, cl)
		switch x.Op {
		case "&&":
			return And(l, r)
		case "||":
			return Or(l, r)
		case "==>":
			return Implies(l, r)
		default:
			return Iff(l, r)
		}
	case "==", "!=":
		l := ex.evalIn(st, x.L, env, cl)
		r := ex.evalIn(st, x.R, env, cl)
		eq := ex.specEqual(st, l, r, cl)
		if x.Op == "!=" {
			return Not(eq)
		}
		return eq
	}
	l := ex.evalTerm(st, x.L, env, cl)
	r := ex.evalTerm(st, x.R, env, cl)
	switch x.Op {
	case "<":
		return Lt(l, r)
	case "<=":
		return Le(l, r)
	case ">":
		return Gt(l, r)
	case ">=":
		return Ge(l, r)
	case "+":
		return Add(l, r)
	case "-":
		return Sub(l, r)
	case "*":
		return Mul(l, r)
	case "/":
		return EDiv(l, r)
	case "%":
		return EMod(l, r)
	}
	ex.evalFail(cl, "unknown operator %s", x.Op)
	return nil
}

func (ex *Exec) specEqual(st *State, l, r Value, cl *Clause) *Term {
	if _, ok := l.(vNil); ok {
		l, r = r, l
	}
	if _, ok := r.(vNil); ok {
		switch v := l.(type) {
		case *VPtr:
			return v.Nil
		case *VIface:
			return Eq(v.Tag, IntLit(0))
		case *VSlice:
			return Eq(v.Ref, IntLit(0))
		case *VMap:
			return Eq(v.Ref, IntLit(0))
		case *VFunc:
			return v.Nil
		case vNil:
			return True
		}
		ex.evalFail(cl, "comparison of %T with nil", l)
	}
	lt, ok1 := l.(*Term)
	rt, ok2 := r.(*Term)
	if ok1 && ok2 {
		if lt.Sort == SStr && rt.Sort == SStr {
			return ex.strEq(st, lt, rt)
		}
		if lt.Sort != rt.Sort {
			ex.evalFail(cl, "comparison of %s with %s", lt.Sort, rt.Sort)
		}
		return Eq(lt, rt)
	}
	if ls, ok := l.(*VStruct); ok {
		if rs, ok := r.(*VStruct); ok && len(ls.Fields) == len(rs.Fields) {
			conj := []*Term{}
			for i := range ls.Fields {
				conj = append(conj, ex.specEqual(st, ls.Fields[i], rs.Fields[i], cl))
			}
			return And(conj...)
		}
	}
	if ls, ok := l.(*VSlice); ok {
		if rs, ok := r.(*VSlice); ok {
			// header equality
			return And(Eq(ls.Ref, rs.Ref), Eq(ls.Off, rs.Off), Eq(ls.Len, rs.Len))
		}
	}
	if lm, ok := l.(*VMap); ok {
		if rm, ok := r.(*VMap); ok {
			return Eq(lm.Ref, rm.Ref)
		}
	}
	if li, ok := l.(*VIface); ok {
		if ri, ok := r.(*VIface); ok {
			return ex.ifaceEq(st, li, ri)
		}
	}
	if lp, ok := l.(*VPtr); ok {
		if rp, ok := r.(*VPtr); ok {
			return ex.valuesEqual(st, nil, lp, rp)
		}
	}
	ex.evalFail(cl, "cannot compare %T with %T", l, r)
	return nil
}

func (ex *Exec) evalCall(st *State, c *ECall, env *Env, cl *Clause) Value {
	name, ok := QualifiedName(c.Fn)
	if !ok {
		ex.evalFail(cl, "call of non-name %s", ExprString(c.Fn))
	}
	switch name {
	case "len":
		v := ex.evalIn(st, c.Args[0], env, cl)
		switch x := v.(type) {
		case *Term:
			if x.Sort == SStr {
				if cst, ok := ex.strLitContent(x); ok {
					return IntLit(int64(len(cst)))
				}
				return App("slen", SInt, x)
			}
		case *VSlice:
			return x.Len
		case *VMap:
			return ex.mapLen(st, st, x)
		case *VPtr:
			if s, ok := ex.specLoad(st, x).(*VSlice); ok {
				return s.Len
			}
		}
		ex.evalFail(cl, "len of %T", v)
	case "cap":
		v := ex.evalIn(st, c.Args[0], env, cl)
		if s, ok := v.(*VSlice); ok {
			return s.Cap
		}
		ex.evalFail(cl, "cap of %T", v)
	case "row":
		// row(s): the elements of a byte/integer slice as an array indexed from 0 (for spec functions over arr)
		v := ex.evalIn(st, c.Args[0], env, cl)
		if p, ok := v.(*VPtr); ok {
			v = ex.specLoad(st, p)
		}
		sl, ok := v.(*VSlice)
		if !ok {
			ex.evalFail(cl, "row of %T", v)
		}
		if _, isLeaf := leafSort(sl.Elem); !isLeaf {
			ex.evalFail(cl, "row: element type %s is not scalar", sl.Elem)
		}
		h := st.heap(heapKey(sl.Elem, Leaf{"", mustLeafSort(sl.Elem), sl.Elem}), HeapOf(mustLeafSort(sl.Elem)))
		if o, isLit := sl.Off.Int64(); isLit && o == 0 {
			return Select(h, sl.Ref)
		}
		if mustLeafSort(sl.Elem) != SInt {
			ex.evalFail(cl, "row of a slice with a non-zero offset: only integer elements")
		}
		// deterministic term (the executor may re-evaluate): rowview(r, o)[k] == r[o + k] (builtin axiom)
		return App("rowview", SArr, Select(h, sl.Ref), sl.Off)
	case "chanlast":
		// the value most recently received from a channel on this path (ghost)
		if v, ok := st.ghost["$lastrecv"]; ok {
			return v
		}
		ex.evalFail(cl, "chanlast(): no channel receive on this path")
	case "chancloses":
		// number of channels closed so far on this path (ghost)
		if _, unknown := st.ghost["$chanEventsUnknown"]; unknown {
			ex.evalFail(cl, "chancloses(): a loop on this path sends on or closes a channel; the count is not known")
		}
		if g, ok := st.ghost["$closes"].(*Term); ok {
			return g
		}
		return IntLit(0)
	case "chansends":
		// number of channel sends executed so far on this path (ghost)
		if _, unknown := st.ghost["$chanEventsUnknown"]; unknown {
			ex.evalFail(cl, "chansends(): a loop on this path sends on or closes a channel; the count is not known")
		}
		if g, ok := st.ghost["$sends"].(*VTuple); ok {
			return IntLit(int64(len(g.Vals)))
		}
		return IntLit(0)
	case "chansent":
		// chansent(i): the i-th value sent on a channel on this path (a dummy value of the same shape as
		// ... nothing when there is no such send: the clause must guard on chansends())
		i, ok := ex.evalTerm(st, c.Args[0], env, cl).Int64()
		if !ok {
			ex.evalFail(cl, "chansent needs a constant index")
		}
		if g, ok := st.ghost["$sends"].(*VTuple); ok && int(i) < len(g.Vals) {
			return g.Vals[i]
		}
		return nil
	case "newvar":
		// newvar(p): p is the address of a variable that is created anew every time control reaches the point of
		// evaluation - a local variable or composite literal of the current function whose allocation site lies
		// inside every loop that contains that point. (A sufficient, syntactic condition for "this pointer was
		// never handed out before"; a variable declared outside the loop and reused in it does not satisfy it.)
		v := ex.evalIn(st, c.Args[0], env, cl)
		p, ok := v.(*VPtr)
		if !ok || p.Obj == nil || p.Obj.Site == nil || len(p.Path) != 0 || len(st.frames) == 0 {
			return False
		}
		fr := st.top()
		if p.Obj.Site.Parent() != fr.fn {
			return False
		}
		for _, li := range loopsOf(fr.fn) {
			if li.body[fr.block] && !li.body[p.Obj.Site.Block()] {
				return False
			}
		}
		return True
	case "allocated":
		// allocated(s): the slice/map refers to memory that has been allocated by now (its reference is below
		// the allocation counter at the point of evaluation); monotone over time
		v := ex.evalIn(st, c.Args[0], env, cl)
		if p, ok := v.(*VPtr); ok {
			v = ex.specLoad(st, p)
		}
		switch x := v.(type) {
		case *VSlice:
			return And(Le(IntLit(0), x.Ref), Lt(x.Ref, st.alloc))
		case *VMap:
			return And(Le(IntLit(0), x.Ref), Lt(x.Ref, st.alloc))
		}
		ex.evalFail(cl, "allocated of %T", v)
	case "sameblock":
		// sameblock(a, b): two slices are views of the same allocation (share memory)
		a := ex.evalIn(st, c.Args[0], env, cl)
		b := ex.evalIn(st, c.Args[1], env, cl)
		if p, ok := a.(*VPtr); ok {
			a = ex.specLoad(st, p)
		}
		if p, ok := b.(*VPtr); ok {
			b = ex.specLoad(st, p)
		}
		sa, ok1 := a.(*VSlice)
		sb, ok2 := b.(*VSlice)
		if !ok1 || !ok2 {
			ex.evalFail(cl, "sameblock of %T and %T", a, b)
		}
		return And(Eq(sa.Ref, sb.Ref), Not(Eq(sa.Ref, IntLit(0))))
	case "fresh":
		v := ex.evalIn(st, c.Args[0], env, cl)
		return ex.freshPred(st, v, env, cl)
	case "has":
		m := ex.evalIn(st, c.Args[0], env, cl)
		k := ex.evalTerm(st, c.Args[1], env, cl)
		mm, ok := m.(*VMap)
		if !ok {
			ex.evalFail(cl, "has: not a map")
		}
		return ex.mapPresent(st, st, mm, k)
	case "dyntype":
		v := ex.evalIn(st, c.Args[0], env, cl)
		if iv, ok := v.(*VIface); ok {
			return iv.Tag
		}
		ex.evalFail(cl, "dyntype of %T", v)
	case "typeid":
		// typeid("pkg.Type") / typeid("*pkg.Type")
		if s, ok := c.Args[0].(*EStr); ok {
			t := ex.parseTypeName(s.S)
			if t == nil {
				ex.evalFail(cl, "unknown type %q", s.S)
			}
			return IntLit(int64(ex.typeID(t)))
		}
	case "unbox":
		// unbox("pkg.Type", iface) : payload of a symbolic interface viewed as the type
		if s, ok := c.Args[0].(*EStr); ok {
			t := ex.parseTypeName(s.S)
			v := ex.evalIn(st, c.Args[1], env, cl)
			iv, ok := v.(*VIface)
			if t == nil || !ok {
				ex.evalFail(cl, "bad unbox")
			}
			if len(iv.Alts) == 1 && types.Identical(iv.Alts[0].T, t) {
				return iv.Alts[0].Val
			}
			for _, a := range iv.Alts {
				if types.Identical(a.T, t) {
					return a.Val
				}
			}
			if pt, ok := t.Underlying().(*types.Pointer); ok {
				// no alternative of that type: an unconstrained dummy pointee (the clause must guard on dyntype)
				obj := ex.newObject("unbox.dummy", pt.Elem(), false)
				st.mem[obj] = ex.symbolicValue(st, pt.Elem(), ex.fresh("unbox.dummy", SInt).Name, 1)
				return &VPtr{Nil: ex.fresh("unbox.nil", SBool), Obj: obj, T: pt.Elem()}
			}
			return ex.unboxSymbolic(st, t, iv.Pay)
		}
	case "ite":
		cnd := ex.evalBool(st, c.Args[0], env, cl)
		a := ex.evalTerm(st, c.Args[1], env, cl)
		b := ex.evalTerm(st, c.Args[2], env, cl)
		return Ite(cnd, a, b)
	}
	if mc, ok := Macros[env.pkg][name]; ok {
		if len(mc.Params) != len(c.Args) {
			ex.evalFail(cl, "macro %s expects %d arguments", name, len(mc.Params))
		}
		inner := &Env{vars: map[string]Value{}, fr: env.fr, lc: env.lc, old: env.old, spec: env.spec, freshBase: env.freshBase, defs: env.defs, pkg: env.pkg}
		for k, v := range env.vars {
			inner.vars[k] = v
		}
		for i, p := range mc.Params {
			inner.vars[p] = ex.evalIn(st, c.Args[i], env, cl)
		}
		return ex.evalIn(st, mc.Body, inner, cl)
	}
	// application of a function value (closure) with a pure contract
	if fv, ok := env.vars[name].(*VFunc); ok {
		var args []Value
		for _, a := range c.Args {
			args = append(args, ex.evalIn(st, a, env, cl))
		}
		return ex.evalClosureApp(st, fv, args, cl)
	}
	if sf, ok := ex.Spec.Funcs[name]; ok {
		if len(sf.Params) != len(c.Args) {
			ex.evalFail(cl, "spec function %s expects %d arguments", name, len(sf.Params))
		}
		args := make([]*Term, len(c.Args))
		for i, a := range c.Args {
			args[i] = ex.evalTerm(st, a, env, cl)
			if args[i].Sort != sf.Params[i].Sort {
				ex.evalFail(cl, "argument %d of %s: sort %s, expected %s", i+1, name, args[i].Sort, sf.Params[i].Sort)
			}
		}
		return App(name, sf.Ret, args...)
	}
	if h, ok := specHooks[name]; ok {
		var args []Value
		for _, a := range c.Args {
			args = append(args, ex.evalIn(st, a, env, cl))
		}
		return h(ex, st, args, cl)
	}
	ex.evalFail(cl, "unknown function %q", name)
	return nil
}

// specHooks: contract-level functions implemented by the engine (ghost traces etc).
var specHooks = map[string]func(ex *Exec, st *State, args []Value, cl *Clause) Value{}

func (ex *Exec) freshPred(st *State, v Value, env *Env, cl *Clause) *Term {
	base := st.alloc0
	if env != nil && env.freshBase != nil {
		base = env.freshBase
	}
	switch x := v.(type) {
	case *VSlice:
		return Ge(x.Ref, base)
	case *VMap:
		return Ge(x.Ref, base)
	case *VPtr:
		if x.Obj != nil {
			return BoolLit(x.Obj.Fresh)
		}
		if x.ElemRef != nil {
			return Ge(x.ElemRef, base)
		}
		return True
	}
	ex.evalFail(cl, "fresh of %T", v)
	return nil
}

// parseTypeName resolves "pkgpath.Name" or "*pkgpath.Name" (pkg may be the short last element).
func (ex *Exec) parseTypeName(s string) types.Type {
	ptr := false
	if strings.HasPrefix(s, "*") {
		ptr = true
		s = s[1:]
	}
	var t types.Type
	switch s {
	case "string":
		t = types.Typ[types.String]
	case "error":
		t = types.Universe.Lookup("error").Type()
	default:
		if bt := basicByName(s); bt != nil {
			t = bt
		} else if s == "bool" {
			t = types.Typ[types.Bool]
		} else {
			i := strings.LastIndex(s, ".")
			if i < 0 {
				return nil
			}
			pkg, name := s[:i], s[i+1:]
			for _, p := range ex.Prog.AllPackages() {
				if p.Pkg.Path() == pkg || p.Pkg.Name() == pkg || strings.HasSuffix(p.Pkg.Path(), "/"+pkg) {
					if o := p.Pkg.Scope().Lookup(name); o != nil {
						if _, ok := o.(*types.TypeName); ok {
							t = o.Type()
							if p.Pkg.Path() == pkg {
								break
							}
						}
					}
				}
			}
		}
	}
	if t == nil {
		return nil
	}
	if ptr {
		return types.NewPointer(t)
	}
	return t
}

// ---------------------------------------------------------------------------
// spec database translation

func (ex *Exec) LoadSpec() error {
	var err error
	func() {
		defer func() {
			if r := recover(); r != nil {
				if ee, ok := r.(evalErr); ok {
					err = fmt.Errorf("%s", ee.msg)
					return
				}
				panic(r)
			}
		}()
		dummy := ex.newState()
		for _, name := range SortedKeys(ex.Spec.Funcs) {
			sf := ex.Spec.Funcs[name]
			if sf.Body == nil {
				continue
			}
			env := &Env{vars: map[string]Value{}, spec: true}
			var params []*Term
			for _, p := range sf.Params {
				v := Var(p.Name, p.Sort)
				params = append(params, v)
				env.vars[p.Name] = v
			}
			cl := &Clause{File: sf.File, Line: sf.Line}
			body := ex.evalTerm(dummy, sf.Body, env, cl)
			if body.Sort != sf.Ret {
				ex.evalFail(cl, "spec function %s: body has sort %s, declared %s", name, body.Sort, sf.Ret)
			}
			ex.Prelude.Defs[name] = &DefFun{Name: name, Params: params, Ret: sf.Ret, Body: body}
		}
		for _, ax := range ex.Spec.Axioms {
			env := &Env{vars: map[string]Value{}, spec: true}
			cl := &Clause{File: ax.File, Line: ax.Line}
			t := ex.evalBool(dummy, ax.E, env, cl)
			ax.term = t
			// a lemma is proved from the definitions alone on every run (Session.LemmaResults)
			// and may then be used like an axiom
			ex.addAxiom(ax.Label, t, ax.IsLemma, ax.Triggers)
		}
	}()
	return err
}

func (ex *Exec) addAxiom(label string, t *Term, lemma bool, trig []string) {
	syms := map[string]SymSig{}
	t.Symbols(syms)
	ex.Prelude.Axioms = append(ex.Prelude.Axioms, &AxiomT{Label: label, T: t, syms: syms, Lemma: lemma, Trig: trig})
}

func (ex *Exec) newState() *State {
	var nb int64 = 1000000
	st := &State{seen: newSeen(nil), mem: map[*Object]Value{}, heaps: map[string]*Term{},
		decided: map[Key]bool{}, ifaceRes: map[*VIface]int{}, ghost: map[string]Value{},
		boxes: map[int64]Value{}, nbox: &nb, alloc: Var("alloc@0", SInt), alloc0: Var("alloc@0", SInt)}
	// memory allocated by the package initialisers occupies the concrete refs 1..initAlloc
	for k, v := range ex.initHeaps {
		st.heaps[k] = v
	}
	for k, v := range ex.initBoxes {
		st.boxes[k] = v
	}
	st.assume(Gt(st.alloc0, IntLit(1000000)))
	for _, f := range ex.initFacts {
		st.assume(f)
	}
	return st
}

// evalClosureApp: the value of applying a closure inside a contract. The closure must have a
// contract with a clause  ensures <label>: result <==> E  (a pure predicate); the application
// evaluates E with the closure's parameters and captured variables bound.
func (ex *Exec) evalClosureApp(st *State, fv *VFunc, args []Value, cl *Clause) Value {
	if fv.Fn == nil {
		// symbolic function value: uninterpreted predicate over scalar arguments
		var ts []*Term
		for _, a := range args {
			switch x := a.(type) {
			case *Term:
				ts = append(ts, x)
			case *VSlice:
				ts = append(ts, x.Ref, x.Off, x.Len)
			default:
				ex.evalFail(cl, "application of symbolic function %s to %T", fv.Sym, a)
			}
		}
		return App("fn."+fv.Sym, SBool, ts...)
	}
	key := ex.FuncKey(fv.Fn)
	ct, ok := ex.Contracts[key]
	if !ok {
		ex.evalFail(cl, "closure %s applied in a contract has no contract", key)
	}
	names := ex.paramNames(fv.Fn, ct)
	env := &Env{vars: map[string]Value{}, defs: ct.Defines, pkg: ct.Pkg}
	for i, n := range names {
		if i < len(args) {
			env.vars[n] = args[i]
		}
	}
	for i, v := range fv.Fn.FreeVars {
		if i < len(fv.Env) {
			// captured variables are cells: the contract talks about their current content
			if p, ok := fv.Env[i].(*VPtr); ok && p.Obj != nil {
				env.vars[v.Name()] = ex.specLoad(st, p)
			} else {
				env.vars[v.Name()] = fv.Env[i]
			}
		}
	}
	resNames := ex.resultNames(fv.Fn, ct)
	for _, en := range ct.Ensures {
		if b, ok := en.E.(*EBin); ok && b.Op == "<==>" {
			if id, ok := b.L.(*EIdent); ok && len(resNames) == 1 && id.Name == resNames[0] {
				ex.cur.contractsUsed[key] = true
				return ex.evalIn(st, b.R, env, en)
			}
		}
	}
	ex.evalFail(cl, "closure %s has no clause of the form  result <==> E", key)
	return nil
}
