package vc

// Loading of contract files (//@ lines in /repo/**/contracts_verif.go) and of
// spec files (/verif/spec/*.spec).

import (
	"bufio"
	"fmt"
	"os"
	"path/filepath"
	"regexp"
	"sort"
	"strconv"
	"strings"
)

type Clause struct {
	Label string
	Src   string
	E     Expr
	File  string
	Line  int
}

type LoopSpec struct {
	Ordinal    int
	Invariants []*Clause
	Decreases  *Clause
	Modifies   []*Clause
}

type Macro struct {
	Name   string
	Params []string
	Body   Expr
}

// Macros: package path -> name -> macro (file-level "macro name(params) = expr" items)
var Macros = map[string]map[string]*Macro{}

type Contract struct {
	Pkg      string   // package path
	Func     string   // function key as written: Encode, (Date).Before, (*Date).UnmarshalJSON, sendto, udpBroadcastTo$1
	Params   []string // optional renaming of parameters (receiver first)
	Results  []string // names for results
	Requires []*Clause
	Ensures  []*Clause
	Modifies []*Clause
	Loops    map[int]*LoopSpec
	Defines  map[string]Expr
	DefOrder []string
	Trusted  bool // contract assumed, body not verified (must be listed in evidence)
	MayPanic bool // explicit panics are part of the function's documented behaviour
	Pure     bool
	Attrs    map[string]string
	File     string
	Line     int
	Raw      []string // the specification part as written (everything but loop invariants/decreases), for pinning
}

// SpecText: the normalised specification part of the contract (pinned by property specs).
func (c *Contract) SpecText() string {
	return strings.Join(strings.Fields(strings.Join(c.Raw, " ; ")), " ")
}

// MacroRaw: package path -> macro name -> text as written
var MacroRaw = map[string]map[string]string{}

func (c *Contract) Key() string { return c.Pkg + "." + c.Func }

var macroRe = regexp.MustCompile(`^([A-Za-z_][A-Za-z0-9_]*)\s*\(([^)]*)\)\s*=\s*(.*)$`)

var labelRe = regexp.MustCompile(`^([A-Za-z_][A-Za-z0-9_\-]*):\s+`)

var contractKeywords = map[string]bool{
	"func": true, "requires": true, "ensures": true, "modifies": true, "loop": true,
	"invariant": true, "decreases": true, "trusted": true, "maypanic": true, "pure": true,
	"returns": true, "attr": true, "params": true, "interface": true, "method": true, "define": true, "macro": true,
}

// LoadContracts reads every contracts_verif.go below root.
func LoadContracts(root string) (map[string]*Contract, []string, error) {
	out := map[string]*Contract{}
	var files []string
	err := filepath.Walk(root, func(p string, info os.FileInfo, err error) error {
		if err != nil {
			return err
		}
		if info.IsDir() && (info.Name() == ".git" || info.Name() == "vendor") {
			return filepath.SkipDir
		}
		if !info.IsDir() && info.Name() == "contracts_verif.go" {
			files = append(files, p)
		}
		return nil
	})
	if err != nil {
		return nil, nil, err
	}
	sort.Strings(files)
	for _, f := range files {
		if err := loadContractFile(f, out); err != nil {
			return nil, nil, err
		}
	}
	return out, files, nil
}

// LoadLibContracts reads the assumed contracts of library functions (<specDir>/lib/*.contracts, same
// syntax as the contract files of the repository). They are assumptions: every one is marked trusted.
func LoadLibContracts(specDir string, out map[string]*Contract) ([]string, error) {
	files, _ := filepath.Glob(filepath.Join(specDir, "lib", "*.contracts"))
	sort.Strings(files)
	for _, f := range files {
		before := map[string]bool{}
		for k := range out {
			before[k] = true
		}
		if err := loadContractFile(f, out); err != nil {
			return nil, err
		}
		for k, c := range out {
			if !before[k] {
				c.Trusted = true
			}
		}
	}
	return files, nil
}

type rawLine struct {
	text string
	line int
}

func loadContractFile(path string, out map[string]*Contract) error {
	fh, err := os.Open(path)
	if err != nil {
		return err
	}
	defer fh.Close()
	sc := bufio.NewScanner(fh)
	sc.Buffer(make([]byte, 1<<20), 1<<20)
	pkgPath := ""
	var lines []rawLine
	n := 0
	for sc.Scan() {
		n++
		l := sc.Text()
		t := strings.TrimSpace(l)
		if strings.HasPrefix(t, "//@") {
			lines = append(lines, rawLine{strings.TrimSpace(t[3:]), n})
		} else if strings.HasPrefix(t, "// verif:package ") {
			pkgPath = strings.TrimSpace(strings.TrimPrefix(t, "// verif:package "))
		}
	}
	if pkgPath == "" {
		return fmt.Errorf("%s: missing '// verif:package <import path>' line", path)
	}
	// group into clauses: a clause starts with a keyword
	type rawClause struct {
		kw   string
		text string
		line int
	}
	var clauses []rawClause
	for _, rl := range lines {
		if rl.text == "" {
			continue
		}
		if i := strings.Index(rl.text, " //"); i >= 0 { // trailing comment
			rl.text = strings.TrimSpace(rl.text[:i])
		}
		first := rl.text
		rest := ""
		if i := strings.IndexAny(rl.text, " \t"); i >= 0 {
			first, rest = rl.text[:i], strings.TrimSpace(rl.text[i:])
		}
		if contractKeywords[first] {
			clauses = append(clauses, rawClause{first, rest, rl.line})
		} else {
			if len(clauses) == 0 {
				return fmt.Errorf("%s:%d: continuation line without clause", path, rl.line)
			}
			clauses[len(clauses)-1].text += " " + rl.text
		}
	}
	var cur *Contract
	var curLoop *LoopSpec
	mkClause := func(rc rawClause) (*Clause, error) {
		txt := rc.text
		label := ""
		if m := labelRe.FindStringSubmatch(txt); m != nil {
			label = m[1]
			txt = txt[len(m[0]):]
		}
		e, err := ParseExpr(txt)
		if err != nil {
			return nil, fmt.Errorf("%s:%d: %v", path, rc.line, err)
		}
		return &Clause{Label: label, Src: txt, E: e, File: path, Line: rc.line}, nil
	}
	for _, rc := range clauses {
		switch rc.kw {
		case "func":
			cur = &Contract{Pkg: pkgPath, Func: strings.TrimSpace(rc.text), Loops: map[int]*LoopSpec{}, Attrs: map[string]string{}, Defines: map[string]Expr{}, File: path, Line: rc.line}
			curLoop = nil
			if _, dup := out[cur.Key()]; dup {
				return fmt.Errorf("%s:%d: duplicate contract for %s", path, rc.line, cur.Key())
			}
			out[cur.Key()] = cur
		case "macro":
			m := macroRe.FindStringSubmatch(rc.text)
			if m == nil {
				return fmt.Errorf("%s:%d: macro NAME(params) = expr", path, rc.line)
			}
			e, err := ParseExpr(m[3])
			if err != nil {
				return fmt.Errorf("%s:%d: %v", path, rc.line, err)
			}
			if Macros[pkgPath] == nil {
				Macros[pkgPath] = map[string]*Macro{}
			}
			Macros[pkgPath][m[1]] = &Macro{Name: m[1], Params: splitNames(m[2]), Body: e}
			if MacroRaw[pkgPath] == nil {
				MacroRaw[pkgPath] = map[string]string{}
			}
			MacroRaw[pkgPath][m[1]] = strings.Join(strings.Fields(rc.text), " ")
		default:
			if cur == nil {
				return fmt.Errorf("%s:%d: clause outside func", path, rc.line)
			}
			if rc.kw != "loop" && rc.kw != "invariant" && rc.kw != "decreases" && !(rc.kw == "modifies" && curLoop != nil) {
				cur.Raw = append(cur.Raw, rc.kw+" "+rc.text)
			}
			switch rc.kw {
			case "params":
				cur.Params = splitNames(rc.text)
			case "returns":
				cur.Results = splitNames(rc.text)
			case "define":
				kv := strings.SplitN(rc.text, "=", 2)
				if len(kv) != 2 {
					return fmt.Errorf("%s:%d: define NAME = expr", path, rc.line)
				}
				e, err := ParseExpr(strings.TrimSpace(kv[1]))
				if err != nil {
					return fmt.Errorf("%s:%d: %v", path, rc.line, err)
				}
				cur.Defines[strings.TrimSpace(kv[0])] = e
				cur.DefOrder = append(cur.DefOrder, strings.TrimSpace(kv[0]))
			case "trusted":
				cur.Trusted = true
			case "maypanic":
				cur.MayPanic = true
			case "pure":
				cur.Pure = true
			case "attr":
				kv := strings.SplitN(rc.text, "=", 2)
				if len(kv) == 2 {
					cur.Attrs[strings.TrimSpace(kv[0])] = strings.TrimSpace(kv[1])
				} else {
					cur.Attrs[strings.TrimSpace(rc.text)] = "true"
				}
			case "modifies":
				for _, part := range splitTopLevel(rc.text) {
					cl, err := mkClause(rawClause{rc.kw, part, rc.line})
					if err != nil {
						return err
					}
					if curLoop != nil {
						curLoop.Modifies = append(curLoop.Modifies, cl)
					} else {
						cur.Modifies = append(cur.Modifies, cl)
					}
				}
			case "requires", "ensures":
				cl, err := mkClause(rc)
				if err != nil {
					return err
				}
				switch rc.kw {
				case "requires":
					if cl.Label == "" {
						cl.Label = "pre" + strconv.Itoa(len(cur.Requires)+1)
					}
					cur.Requires = append(cur.Requires, cl)
				case "ensures":
					if cl.Label == "" {
						cl.Label = "post" + strconv.Itoa(len(cur.Ensures)+1)
					}
					cur.Ensures = append(cur.Ensures, cl)
				case "modifies":
					if curLoop != nil {
						curLoop.Modifies = append(curLoop.Modifies, cl)
					} else {
						cur.Modifies = append(cur.Modifies, cl)
					}
				}
			case "loop":
				k, err := strconv.Atoi(strings.TrimSpace(rc.text))
				if err != nil {
					return fmt.Errorf("%s:%d: loop ordinal expected", path, rc.line)
				}
				curLoop = &LoopSpec{Ordinal: k}
				cur.Loops[k] = curLoop
			case "invariant", "decreases":
				if curLoop == nil {
					return fmt.Errorf("%s:%d: %s outside loop", path, rc.line, rc.kw)
				}
				cl, err := mkClause(rc)
				if err != nil {
					return err
				}
				if rc.kw == "invariant" {
					if cl.Label == "" {
						cl.Label = "inv" + strconv.Itoa(len(curLoop.Invariants)+1)
					}
					curLoop.Invariants = append(curLoop.Invariants, cl)
				} else {
					curLoop.Decreases = cl
				}
			default:
				return fmt.Errorf("%s:%d: unexpected keyword %s", path, rc.line, rc.kw)
			}
		}
	}
	return nil
}

func splitNames(s string) []string {
	s = strings.Trim(strings.TrimSpace(s), "()")
	var out []string
	for _, p := range strings.Split(s, ",") {
		p = strings.TrimSpace(p)
		if p != "" {
			out = append(out, p)
		}
	}
	return out
}

// ---------------- spec files ----------------

type SpecParam struct {
	Name string
	Sort Sort
}

type SpecFunc struct {
	Name   string
	Params []SpecParam
	Ret    Sort
	Body   Expr // nil => uninterpreted
	Src    string
	File   string
	Line   int
}

type SpecAxiom struct {
	Triggers []string
	Label    string
	E        Expr
	Src      string
	IsLemma  bool
	File     string
	Line     int
	term     *Term
}

type SpecDB struct {
	Ghosts     map[string]Sort
	GhostOrder []string
	Sorts      map[string]bool
	Funcs      map[string]*SpecFunc
	Axioms     []*SpecAxiom
	Consts     map[string]Sort
}

func NewSpecDB() *SpecDB {
	return &SpecDB{Sorts: map[string]bool{}, Funcs: map[string]*SpecFunc{}, Consts: map[string]Sort{}, Ghosts: map[string]Sort{}}
}

func sortOfTypeName(db *SpecDB, n string) (Sort, error) {
	switch n {
	case "int":
		return SInt, nil
	case "bool":
		return SBool, nil
	case "string":
		return SStr, nil
	case "arr":
		return SArr, nil
	case "arr2":
		return SHInt, nil
	case "barr":
		return SArrB, nil
	}
	if db.Sorts[n] {
		return Sort(n), nil
	}
	return "", fmt.Errorf("unknown spec type %q", n)
}

var specFuncRe = regexp.MustCompile(`^func\s+([A-Za-z_][A-Za-z0-9_.]*)\s*\(([^)]*)\)\s*([A-Za-z_][A-Za-z0-9_]*)\s*(=\s*(.*))?$`)
var specConstRe = regexp.MustCompile(`^const\s+([A-Za-z_][A-Za-z0-9_.]*)\s+([A-Za-z_][A-Za-z0-9_]*)$`)

func (db *SpecDB) LoadDir(dir string) error {
	files, _ := filepath.Glob(filepath.Join(dir, "*.spec"))
	sort.Strings(files)
	for _, f := range files {
		if err := db.LoadFile(f); err != nil {
			return err
		}
	}
	return nil
}

func (db *SpecDB) LoadFile(path string) error {
	data, err := os.ReadFile(path)
	if err != nil {
		return err
	}
	type item struct {
		text string
		line int
	}
	var items []item
	for i, l := range strings.Split(string(data), "\n") {
		if j := strings.Index(l, "#"); j >= 0 {
			l = l[:j]
		}
		if strings.TrimSpace(l) == "" {
			continue
		}
		if l[0] == ' ' || l[0] == '\t' {
			if len(items) == 0 {
				return fmt.Errorf("%s:%d: continuation without item", path, i+1)
			}
			items[len(items)-1].text += " " + strings.TrimSpace(l)
		} else {
			items = append(items, item{strings.TrimSpace(l), i + 1})
		}
	}
	for _, it := range items {
		switch {
		case strings.HasPrefix(it.text, "sort "):
			db.Sorts[strings.TrimSpace(it.text[5:])] = true
		case strings.HasPrefix(it.text, "ghost "):
			fs := strings.Fields(it.text)
			if len(fs) != 3 {
				return fmt.Errorf("%s:%d: ghost NAME SORT", path, it.line)
			}
			s, err := sortOfTypeName(db, fs[2])
			if err != nil {
				return fmt.Errorf("%s:%d: %v", path, it.line, err)
			}
			db.Ghosts[fs[1]] = s
			db.GhostOrder = append(db.GhostOrder, fs[1])
		case strings.HasPrefix(it.text, "const "):
			m := specConstRe.FindStringSubmatch(it.text)
			if m == nil {
				return fmt.Errorf("%s:%d: bad const", path, it.line)
			}
			s, err := sortOfTypeName(db, m[2])
			if err != nil {
				return fmt.Errorf("%s:%d: %v", path, it.line, err)
			}
			db.Consts[m[1]] = s
		case strings.HasPrefix(it.text, "func "):
			m := specFuncRe.FindStringSubmatch(it.text)
			if m == nil {
				return fmt.Errorf("%s:%d: bad func declaration: %s", path, it.line, it.text)
			}
			sf := &SpecFunc{Name: m[1], File: path, Line: it.line, Src: it.text}
			if strings.TrimSpace(m[2]) != "" {
				for _, p := range strings.Split(m[2], ",") {
					fs := strings.Fields(p)
					if len(fs) != 2 {
						return fmt.Errorf("%s:%d: bad parameter %q", path, it.line, p)
					}
					s, err := sortOfTypeName(db, fs[1])
					if err != nil {
						return fmt.Errorf("%s:%d: %v", path, it.line, err)
					}
					sf.Params = append(sf.Params, SpecParam{fs[0], s})
				}
			}
			rs, err := sortOfTypeName(db, m[3])
			if err != nil {
				return fmt.Errorf("%s:%d: %v", path, it.line, err)
			}
			sf.Ret = rs
			if m[5] != "" {
				e, err := ParseExpr(m[5])
				if err != nil {
					return fmt.Errorf("%s:%d: %v", path, it.line, err)
				}
				sf.Body = e
			}
			if _, dup := db.Funcs[sf.Name]; dup {
				return fmt.Errorf("%s:%d: duplicate spec func %s", path, it.line, sf.Name)
			}
			db.Funcs[sf.Name] = sf
		case strings.HasPrefix(it.text, "axiom "), strings.HasPrefix(it.text, "lemma "):
			isLemma := strings.HasPrefix(it.text, "lemma ")
			txt := strings.TrimSpace(it.text[6:])
			var triggers []string
			// optional trigger list:  axiom label @sym1,sym2: body
			if ci := strings.Index(txt, ":"); ci > 0 {
				if ai := strings.Index(txt[:ci], "@"); ai > 0 {
					for _, t := range strings.Split(txt[ai+1:ci], ",") {
						triggers = append(triggers, strings.TrimSpace(t))
					}
					txt = strings.TrimSpace(txt[:ai]) + txt[ci:]
				}
			}
			m := labelRe.FindStringSubmatch(txt)
			if m == nil {
				// labels in spec files may contain dots
				i := strings.Index(txt, ":")
				if i < 0 || strings.ContainsAny(txt[:i], " (") {
					return fmt.Errorf("%s:%d: axiom needs a label", path, it.line)
				}
				m = []string{txt[:i+1], txt[:i]}
			}
			body := strings.TrimSpace(txt[len(m[0]):])
			e, err := ParseExpr(body)
			if err != nil {
				return fmt.Errorf("%s:%d: %v", path, it.line, err)
			}
			db.Axioms = append(db.Axioms, &SpecAxiom{Label: m[1], E: e, Src: body, IsLemma: isLemma, File: path, Line: it.line, Triggers: triggers})
		default:
			return fmt.Errorf("%s:%d: unknown item: %s", path, it.line, it.text)
		}
	}
	return nil
}

func splitTopLevel(s string) []string {
	var out []string
	depth := 0
	start := 0
	for i, c := range s {
		switch c {
		case '(', '[':
			depth++
		case ')', ']':
			depth--
		case ',':
			if depth == 0 {
				out = append(out, strings.TrimSpace(s[start:i]))
				start = i + 1
			}
		}
	}
	if t := strings.TrimSpace(s[start:]); t != "" {
		out = append(out, t)
	}
	return out
}
