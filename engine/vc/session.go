package vc

import (
	"bytes"
	"context"
	"crypto/sha256"
	"encoding/json"
	"fmt"
	"os"
	"path/filepath"
	"sort"
	"strings"
	"sync"
	"time"

	"golang.org/x/tools/go/packages"
	"golang.org/x/tools/go/ssa"
	"golang.org/x/tools/go/ssa/ssautil"
)

type Session struct {
	Ex                 *Exec
	RepoDir            string
	SpecDir            string
	WorkDir            string
	TimeoutS           int
	Parallel           int
	ContractFiles      []string
	LoadTime           float64
	IdenticalInstances map[string]int
}

const ModulePath = "github.com/uhppoted/uhppote-core"

func NewSession(repo, specDir, work string) (*Session, error) {
	start := time.Now()
	cfg := &packages.Config{Mode: packages.LoadAllSyntax, Dir: repo, BuildFlags: []string{"-tags=verif"},
		Env: append(os.Environ(), "GOFLAGS=-mod=mod", "GOPROXY=off", "GOSUMDB=off", "GOTOOLCHAIN=local")}
	pkgs, err := packages.Load(cfg, "./...")
	if err != nil {
		return nil, err
	}
	nerr := 0
	packages.Visit(pkgs, nil, func(p *packages.Package) {
		for _, e := range p.Errors {
			if strings.HasPrefix(p.PkgPath, ModulePath) {
				fmt.Fprintf(os.Stderr, "load error: %v\n", e)
				nerr++
			}
		}
	})
	if nerr > 0 {
		return nil, fmt.Errorf("%d load errors in %s", nerr, repo)
	}
	prog, _ := ssautil.AllPackages(pkgs, ssa.NaiveForm|ssa.InstantiateGenerics)
	prog.Build()
	db := NewSpecDB()
	if err := db.LoadDir(specDir); err != nil {
		return nil, err
	}
	contracts, files, err := LoadContracts(repo)
	if err != nil {
		return nil, err
	}
	libFiles, err := LoadLibContracts(specDir, contracts)
	if err != nil {
		return nil, err
	}
	files = append(files, libFiles...)
	ex := NewExec(prog, ModulePath, db, contracts)
	if err := ex.LoadSpec(); err != nil {
		return nil, err
	}
	if data, err := os.ReadFile(filepath.Join(specDir, "locals_baseline.json")); err == nil {
		json.Unmarshal(data, &ex.LocalsBaseline)
	}
	if data, err := os.ReadFile(filepath.Join(specDir, "functions_baseline.json")); err == nil {
		json.Unmarshal(data, &ex.FuncsBaseline)
	}
	ex.AlignClosures()
	ex.IndexFunctions()
	ex.RunInits()
	s := &Session{Ex: ex, RepoDir: repo, SpecDir: specDir, WorkDir: work, TimeoutS: 10, Parallel: 14, ContractFiles: files, IdenticalInstances: map[string]int{}}
	s.LoadTime = time.Since(start).Seconds()
	return s, nil
}

// Generate runs the VC generator for the function with the given contract key.
func (s *Session) Generate(key string) []*FuncResult {
	ex := s.Ex
	ct := ex.Contracts[key]
	var fns []*ssa.Function
	if fn, ok := ex.FuncByKey[key]; ok && (fn.TypeParams().Len() == 0 || len(fn.TypeArgs()) > 0) {
		fns = append(fns, fn)
	}
	if len(fns) == 0 {
		fns = ex.InstancesOf(key)
	}
	if len(fns) == 0 {
		return []*FuncResult{{Key: key, Error: "function not found in the program"}}
	}
	var out []*FuncResult
	// instantiations of a generic function whose SSA bodies are identical up to the name of
	// the instance are verified once
	seenBody := map[string]string{}
	for _, fn := range fns {
		if len(fns) > 1 {
			var buf bytes.Buffer
			fn.WriteTo(&buf)
			body := buf.String()
			if i := strings.Index(body, "\n0:"); i >= 0 {
				body = body[i:]
			}
			root := fn
			for root.Parent() != nil {
				root = root.Parent()
			}
			for _, t := range root.TypeArgs() {
				body = strings.ReplaceAll(body, t.String(), "$T")
			}
			if prev, ok := seenBody[body]; ok {
				_ = prev
				s.IdenticalInstances[key]++
				continue
			}
			seenBody[body] = fn.String()
		}
		k := key
		if len(fn.TypeArgs()) > 0 {
			targs := []string{}
			for _, t := range fn.TypeArgs() {
				targs = append(targs, shortName(t.String()))
			}
			k = key + "[" + strings.Join(targs, ",") + "]"
		}
		out = append(out, ex.VerifyFunction(fn, k, ct))
	}
	return out
}

// LemmaResults: one obligation per `lemma` item of the spec files, to be proved from the
// definitions and axioms alone (never from other lemmas).
func (s *Session) LemmaResults() *FuncResult {
	r := &FuncResult{Key: ModulePath + "/spec.lemmas", Returns: 1}
	for _, ax := range s.Ex.Prelude.Axioms {
		if !ax.Lemma {
			continue
		}
		r.Obligations = append(r.Obligations, &Obligation{Func: r.Key, Name: "lemma:" + ax.Label, Class: "lemma", Goal: ax.T, ProvingLemma: true, Detail: ax.T.String()})
	}
	return r
}

// DischargeAll runs the solvers on every open obligation.
func (s *Session) DischargeAll(results []*FuncResult, sub string) {
	type job struct{ o *Obligation }
	var jobs []*Obligation
	for _, r := range results {
		for i, o := range r.Obligations {
			if o.Status != "" || o.Cover {
				continue
			}
			_ = i
			jobs = append(jobs, o)
		}
	}
	if os.Getenv("GOVC_PROGRESS") != "" {
		fmt.Fprintf(os.Stderr, "generated %d open obligations\n", len(jobs))
	}
	dir := filepath.Join(s.WorkDir, sub)
	os.RemoveAll(dir)
	os.MkdirAll(dir, 0o755)
	var wg sync.WaitGroup
	sem := make(chan struct{}, s.Parallel)
	var mu sync.Mutex
	texts := map[[32]byte]*Obligation{}
	for i, o := range jobs {
		text, axioms := s.Ex.Prelude.Emit(&Query{Hyps: o.Hyps, Goal: o.Goal, NoAxioms: o.NoAxioms, Opaque: o.Opaque, ProvingLemma: o.ProvingLemma}, false)
		o.Axioms = axioms
		// identical queries are solved once
		th := sha256.Sum256([]byte(text))
		if prev, ok := texts[th]; ok {
			o.Detail = o.Detail + ""
			defer func(o, prev *Obligation) {
				o.Status, o.Solver, o.Time, o.File = prev.Status, prev.Solver+" (shared query)", 0, prev.File
			}(o, prev)
			continue
		}
		texts[th] = o
		name := fmt.Sprintf("%04d_%s", i, o.FullName())
		file, err := WriteQuery(dir, name, text)
		if err != nil {
			o.Status = "error"
			continue
		}
		o.File = file
		wg.Add(1)
		sem <- struct{}{}
		go func(o *Obligation) {
			defer wg.Done()
			defer func() { <-sem }()
			to := s.TimeoutS
			if o.Cover {
				to = 3
			}
			res, all := Discharge(o.File, to)
			mu.Lock()
			o.Status, o.Solver, o.Time, o.AllRes = res.Status, res.Solver, res.Time, all
			if strings.HasPrefix(res.Output, "cross-check: confirmed") {
				o.Cross = "confirmed"
			} else if strings.HasPrefix(res.Output, "cross-check: unconfirmed") {
				o.Cross = "unconfirmed"
			}
			if os.Getenv("GOVC_PROGRESS") != "" {
				fmt.Fprintf(os.Stderr, "done %-8s %6.2fs %s %s\n", res.Status, res.Time, o.FullName(), o.File)
			}
			mu.Unlock()
		}(o)
	}
	wg.Wait()
}

// Summary of obligations by distinct name.
type OblSummary struct {
	Name      string
	Class     string
	Instances int
	Status    string // unsat if all instances unsat
	Solvers   map[string]int
	Time      float64
	MaxTime   float64 // slowest single query
	Failed    []*Obligation
}

func Summarize(results []*FuncResult) []*OblSummary {
	m := map[string]*OblSummary{}
	var order []string
	for _, r := range results {
		for _, o := range r.Obligations {
			if o.Cover {
				continue
			}
			n := o.FullName()
			sm, ok := m[n]
			if !ok {
				sm = &OblSummary{Name: n, Class: o.Class, Status: "unsat", Solvers: map[string]int{}}
				m[n] = sm
				order = append(order, n)
			}
			sm.Instances++
			sm.Time += o.Time
			if o.Time > sm.MaxTime {
				sm.MaxTime = o.Time
			}
			sm.Solvers[o.Solver]++
			if o.Status == "known-finding" {
				if sm.Status == "unsat" {
					sm.Status = "known-finding"
				}
			} else if o.Status != "unsat" {
				sm.Status = o.Status
				sm.Failed = append(sm.Failed, o)
			}
		}
	}
	sort.Strings(order)
	var out []*OblSummary
	for _, n := range order {
		out = append(out, m[n])
	}
	return out
}

// CoverResult: vacuity guard for one ensures clause of one function.
type CoverResult struct {
	Func, Label string
	Status      string // reachable (sat), possibly-reachable (unknown/timeout), vacuous (every path unsat)
	Tried       int
}

// VacuityCheck: for every ensures clause, some return path must be compatible with the
// clause's antecedent (the query  path && antecedent  must not be unsat on every path).
func (s *Session) VacuityCheck(results []*FuncResult, sub string) []*CoverResult {
	type group struct {
		fn, label string
		obls      []*Obligation
	}
	groups := map[string]*group{}
	var order []string
	for _, r := range results {
		for _, o := range r.Obligations {
			if !o.Cover {
				continue
			}
			k := o.Func + "#" + o.Name
			g, ok := groups[k]
			if !ok {
				g = &group{fn: o.Func, label: strings.TrimPrefix(o.Name, "cover:")}
				groups[k] = g
				order = append(order, k)
			}
			g.obls = append(g.obls, o)
		}
	}
	dir := filepath.Join(s.WorkDir, sub+"_cover")
	os.RemoveAll(dir)
	os.MkdirAll(dir, 0o755)
	out := make([]*CoverResult, len(order))
	var wg sync.WaitGroup
	sem := make(chan struct{}, s.Parallel)
	for gi, k := range order {
		g := groups[k]
		wg.Add(1)
		sem <- struct{}{}
		go func(gi int, g *group) {
			defer wg.Done()
			defer func() { <-sem }()
			cr := &CoverResult{Func: g.fn, Label: g.label, Status: "vacuous"}
			for i, o := range g.obls {
				if o.Goal.IsTrue() { // antecedent simplifies to false on this path
					cr.Tried++
					continue
				}
				text, _ := s.Ex.Prelude.Emit(&Query{Hyps: o.Hyps, Goal: o.Goal, NoAxioms: o.NoAxioms, Opaque: o.Opaque, ProvingLemma: o.ProvingLemma}, false)
				file, err := WriteQuery(dir, fmt.Sprintf("%03d_%03d_%s", gi, i, o.FullName()), text)
				if err != nil {
					continue
				}
				cr.Tried++
				res := runSolver(context.Background(), solverCfgs[0], file, 2)
				o.Status = res.Status
				if res.Status == "sat" {
					cr.Status = "reachable"
					break
				}
				if res.Status != "unsat" {
					cr.Status = "possibly-reachable"
					break
				}
			}
			out[gi] = cr
		}(gi, g)
	}
	wg.Wait()
	return out
}
