package vc

// State merging at control-flow joins. Paths that reach the same join block with the
// same call stack are parked and later merged into one state whose values are
// if-then-else terms over fresh path selectors. This keeps the number of paths
// linear in straight-line code with many independent branches (e.g. the per-field
// branches of the reflective codec).

import (
	"fmt"
	"go/types"
	"os"
	"sort"
	"strings"

	"golang.org/x/tools/go/ssa"
)

type parkRequest struct{}

// joinKey identifies a program point including the whole call stack and loop unrolling state.
func (st *State) joinKey() string {
	var b strings.Builder
	for _, f := range st.frames {
		fmt.Fprintf(&b, "%p:%d:%d|", f.fn, f.block.Index, f.idx)
		// unrolled loop visit counts
		var vs []string
		for blk, n := range f.visits {
			vs = append(vs, fmt.Sprintf("%d=%d", blk.Index, n))
		}
		sort.Strings(vs)
		b.WriteString(strings.Join(vs, ","))
		b.WriteString("|")
		for _, l := range f.loops {
			fmt.Fprintf(&b, "L%d", l.ordinal)
		}
		fmt.Fprintf(&b, "|d%d|r%v;", len(f.defers), f.runningDefers)
	}
	return b.String()
}

// shouldPark: called after a jump into a block. Evaluates the phis of a join block.
func (ex *Exec) shouldPark(st *State, fr *Frame) bool {
	if !ex.Merge || len(fr.block.Preds) < 2 {
		return false
	}
	if st.released {
		st.released = false
		return false
	}
	return true
}

type mergeFail struct{ why string }

// mergeStates merges states parked at the same join. States that cannot be merged
// (different pointer targets etc.) are returned separately.
func (ex *Exec) mergeStates(states []*State) []*State {
	if len(states) == 1 {
		states[0].released = true
		return states
	}
	var out []*State
	rest := states
	for len(rest) > 0 {
		group := []*State{rest[0]}
		var leftover []*State
		for _, s := range rest[1:] {
			if ex.compatible(rest[0], s) {
				group = append(group, s)
			} else {
				leftover = append(leftover, s)
			}
		}
		m := ex.mergeGroup(group)
		if m == nil {
			// could not merge: keep them apart
			for _, s := range group {
				s.released = true
				out = append(out, s)
			}
		} else {
			m.released = true
			out = append(out, m)
		}
		rest = leftover
	}
	return out
}

func (ex *Exec) compatible(a, b *State) bool {
	if len(a.frames) != len(b.frames) {
		return false
	}
	for i := range a.frames {
		if a.frames[i].fn != b.frames[i].fn || a.frames[i].block != b.frames[i].block || a.frames[i].idx != b.frames[i].idx {
			return false
		}
	}
	return true
}

func (ex *Exec) mergeGroup(group []*State) (res *State) {
	if len(group) == 1 {
		return group[0]
	}
	defer func() {
		if r := recover(); r != nil {
			if _, ok := r.(mergeFail); ok {
				res = nil
				return
			}
			panic(r)
		}
	}()
	n := len(group)
	base := group[0]
	if DebugSplits != nil {
		fr := base.top()
		fmt.Fprintf(os.Stderr, "MERGE %d states at %s block %d (depth %d) pc=%d steps=%d\n", n, fr.fn.Name(), fr.block.Index, len(base.frames), len(base.pc), base.steps)
	}
	// facts common to all states stay unguarded
	common := map[Key]bool{}
	for _, f := range base.pc {
		k := f.Key()
		all := true
		for _, s := range group[1:] {
			if !s.seen.Has(k) {
				all = false
				break
			}
		}
		if all {
			common[k] = true
		}
	}
	sel := make([]*Term, n)
	for i := range group {
		sel[i] = ex.fresh("path", SBool)
	}
	m := base.clone()
	m.pc = nil
	m.seen = newSeen(nil)
	m.impls = nil
	for _, f := range base.pc {
		if common[f.Key()] {
			m.assume(f)
		}
	}
	m.assume(Or(sel...))
	for i, s := range group {
		for _, f := range s.pc {
			if !common[f.Key()] {
				m.assume(Implies(sel[i], f))
			}
		}
	}
	pick := func(vals []Value, what string) Value { return ex.mergeVals(sel, vals, what) }
	// frames
	for fi := range m.frames {
		mf := m.frames[fi]
		for k := range mf.regs {
			vals := make([]Value, n)
			missing := false
			for i, s := range group {
				v, ok := s.frames[fi].regs[k]
				if !ok {
					missing = true
					break
				}
				vals[i] = v
			}
			if missing {
				delete(mf.regs, k)
				continue
			}
			dropped := false
			mv := ex.mergeValsLenient(sel, vals, k.Name(), func() { dropped = true })
			if dropped {
				delete(mf.regs, k)
			} else {
				mf.regs[k] = mv
			}
		}
		for _, s := range group[1:] {
			if len(s.frames[fi].defers) != len(mf.defers) || len(s.frames[fi].loops) != len(mf.loops) {
				panic(mergeFail{"defer/loop stacks differ"})
			}
			for li := range mf.loops {
				if s.frames[fi].loops[li].head != mf.loops[li].head {
					panic(mergeFail{"loop stacks differ"})
				}
				if !Equal(nonNilTerm(s.frames[fi].loops[li].measure0), nonNilTerm(mf.loops[li].measure0)) {
					panic(mergeFail{"loop measures differ"})
				}
			}
		}
	}
	// memory objects
	for obj := range m.mem {
		vals := make([]Value, n)
		missing := false
		for i, s := range group {
			v, ok := s.mem[obj]
			if !ok {
				missing = true
				break
			}
			vals[i] = v
		}
		if missing {
			continue
		}
		m.mem[obj] = pick(vals, obj.Name)
	}
	for _, s := range group[1:] {
		for obj, v := range s.mem {
			if _, ok := m.mem[obj]; !ok {
				m.mem[obj] = v
			}
		}
	}
	// heaps
	keys := map[string]bool{}
	for _, s := range group {
		for k := range s.heaps {
			keys[k] = true
		}
	}
	for k := range keys {
		vals := make([]Value, n)
		for i, s := range group {
			h, ok := s.heaps[k]
			if !ok {
				// untouched in this state: its initial value
				for _, s2 := range group {
					if h2, ok2 := s2.heaps[k]; ok2 {
						h = Var(k+"@0", h2.Sort)
						break
					}
				}
				if init, ok := ex.initHeaps[k]; ok {
					h = init
				}
			}
			vals[i] = h
		}
		m.heaps[k] = pick(vals, k).(*Term)
	}
	// allocation counter and fresh refs
	{
		vals := make([]Value, n)
		for i, s := range group {
			vals[i] = s.alloc
		}
		m.alloc = pick(vals, "alloc").(*Term)
		seen := map[Key]bool{}
		m.freshRefs = nil
		for _, s := range group {
			for _, r := range s.freshRefs {
				if !seen[r.Key()] {
					seen[r.Key()] = true
					m.freshRefs = append(m.freshRefs, r)
				}
			}
		}
	}
	// ghost state
	for k := range m.ghost {
		vals := make([]Value, n)
		for i, s := range group {
			v, ok := s.ghost[k]
			if !ok {
				panic(mergeFail{"ghost variable missing"})
			}
			vals[i] = v
		}
		m.ghost[k] = pick(vals, k)
	}
	for _, s := range group[1:] {
		for k := range s.ghost {
			if _, ok := m.ghost[k]; !ok {
				panic(mergeFail{"ghost variable missing"})
			}
		}
	}
	// decisions: keep only the agreed ones
	for k, v := range m.decided {
		for _, s := range group[1:] {
			if v2, ok := s.decided[k]; !ok || v2 != v {
				delete(m.decided, k)
				break
			}
		}
	}
	for k, v := range m.ifaceRes {
		for _, s := range group[1:] {
			if v2, ok := s.ifaceRes[k]; !ok || v2 != v {
				delete(m.ifaceRes, k)
				break
			}
		}
	}
	for _, s := range group {
		if s.steps > m.steps {
			m.steps = s.steps
		}
	}
	return m
}

func nonNilTerm(t *Term) *Term {
	if t == nil {
		return IntLit(-1)
	}
	return t
}

// mergeValsLenient: registers that cannot be merged are dropped (they are dead if SSA
// dominance holds; a later use reports a missing value and aborts the function).
func (ex *Exec) mergeValsLenient(sel []*Term, vals []Value, what string, drop func()) (res Value) {
	defer func() {
		if r := recover(); r != nil {
			if _, ok := r.(mergeFail); ok {
				res = nil
				drop()
				return
			}
			panic(r)
		}
	}()
	return ex.mergeVals(sel, vals, what)
}

func iteChain(sel []*Term, ts []*Term) *Term {
	same := true
	for _, t := range ts[1:] {
		if !Equal(t, ts[0]) {
			same = false
			break
		}
	}
	if same {
		return ts[0]
	}
	r := ts[len(ts)-1]
	for i := len(ts) - 2; i >= 0; i-- {
		r = Ite(sel[i], ts[i], r)
	}
	return r
}

func (ex *Exec) mergeVals(sel []*Term, vals []Value, what string) Value {
	allSame := true
	for _, v := range vals[1:] {
		if v != vals[0] {
			allSame = false
			break
		}
	}
	if allSame {
		return vals[0]
	}
	switch x := vals[0].(type) {
	case *Term:
		ts := make([]*Term, len(vals))
		for i, v := range vals {
			t, ok := v.(*Term)
			if !ok || t.Sort != x.Sort {
				panic(mergeFail{"kind mismatch " + what})
			}
			ts[i] = t
		}
		return iteChain(sel, ts)
	case *VStruct:
		out := &VStruct{T: x.T, Names: x.Names, Fields: make([]Value, len(x.Fields))}
		for fi := range x.Fields {
			sub := make([]Value, len(vals))
			for i, v := range vals {
				s, ok := v.(*VStruct)
				if !ok || len(s.Fields) != len(x.Fields) {
					panic(mergeFail{"struct mismatch " + what})
				}
				sub[i] = s.Fields[fi]
			}
			out.Fields[fi] = ex.mergeVals(sel, sub, what)
		}
		return out
	case *VSlice:
		get := func(f func(*VSlice) *Term) *Term {
			ts := make([]*Term, len(vals))
			for i, v := range vals {
				s, ok := v.(*VSlice)
				if !ok {
					panic(mergeFail{"slice mismatch " + what})
				}
				ts[i] = f(s)
			}
			return iteChain(sel, ts)
		}
		return &VSlice{Ref: get(func(s *VSlice) *Term { return s.Ref }), Off: get(func(s *VSlice) *Term { return s.Off }),
			Len: get(func(s *VSlice) *Term { return s.Len }), Cap: get(func(s *VSlice) *Term { return s.Cap }), Elem: x.Elem}
	case *VMap:
		ts := make([]*Term, len(vals))
		for i, v := range vals {
			mv, ok := v.(*VMap)
			if !ok {
				panic(mergeFail{"map mismatch " + what})
			}
			ts[i] = mv.Ref
		}
		return &VMap{Ref: iteChain(sel, ts), T: x.T}
	case *VTuple:
		out := &VTuple{Vals: make([]Value, len(x.Vals))}
		for fi := range x.Vals {
			sub := make([]Value, len(vals))
			for i, v := range vals {
				t, ok := v.(*VTuple)
				if !ok || len(t.Vals) != len(x.Vals) {
					panic(mergeFail{"tuple mismatch " + what})
				}
				sub[i] = t.Vals[fi]
			}
			out.Vals[fi] = ex.mergeVals(sel, sub, what)
		}
		return out
	case *VPtr:
		// representative: the first pointer that is not the nil constant
		rep := x
		for _, v := range vals {
			p, ok := v.(*VPtr)
			if !ok {
				panic(mergeFail{"pointer mismatch " + what})
			}
			if !(p.Nil.IsTrue() && p.Obj == nil && p.ElemRef == nil) {
				rep = p
				break
			}
		}
		nils := make([]*Term, len(vals))
		eref := make([]*Term, len(vals))
		eidx := make([]*Term, len(vals))
		for i, v := range vals {
			p := v.(*VPtr)
			if p.Nil.IsTrue() && p.Obj == nil && p.ElemRef == nil {
				nils[i] = True
				eref[i], eidx[i] = rep.ElemRef, rep.ElemIdx
				continue
			}
			if p.Obj != rep.Obj || !pathEq(p.Path, rep.Path) || (p.ElemRef == nil) != (rep.ElemRef == nil) || (p.ElemIdx == nil) != (rep.ElemIdx == nil) {
				panic(mergeFail{"different pointer targets " + what})
			}
			nils[i] = p.Nil
			eref[i], eidx[i] = p.ElemRef, p.ElemIdx
		}
		out := &VPtr{Nil: iteChain(sel, nils), Obj: rep.Obj, Path: rep.Path, ElemT: rep.ElemT, T: rep.T}
		if rep.ElemRef != nil {
			out.ElemRef = iteChain(sel, eref)
		}
		if rep.ElemIdx != nil {
			out.ElemIdx = iteChain(sel, eidx)
		}
		return out
	case *VIface:
		tags := make([]*Term, len(vals))
		pays := make([]*Term, len(vals))
		// union of alternatives by type
		type altAcc struct {
			t    types.Type
			vals []Value
		}
		var accs []*altAcc
		anyAlts := false
		for i, v := range vals {
			iv, ok := v.(*VIface)
			if !ok {
				panic(mergeFail{"interface mismatch " + what})
			}
			tags[i] = iv.Tag
			pays[i] = iv.Pay
			if len(iv.Alts) > 0 {
				anyAlts = true
			}
		}
		if !anyAlts {
			out := &VIface{Tag: iteChain(sel, tags)}
			havePay := true
			for _, p := range pays {
				if p == nil {
					havePay = false
				}
			}
			if havePay {
				out.Pay = iteChain(sel, pays)
			}
			return out
		}
		for i, v := range vals {
			iv := v.(*VIface)
			if len(iv.Alts) == 0 && !(iv.Tag.IsIntLit() && iv.Tag.Int.Sign() == 0) {
				panic(mergeFail{"symbolic and concrete interface " + what})
			}
			for _, a := range iv.Alts {
				var acc *altAcc
				for _, c := range accs {
					if types.Identical(c.t, a.T) {
						acc = c
					}
				}
				if acc == nil {
					acc = &altAcc{t: a.T, vals: make([]Value, len(vals))}
					accs = append(accs, acc)
				}
				acc.vals[i] = a.Val
			}
		}
		out := &VIface{Tag: iteChain(sel, tags)}
		for _, acc := range accs {
			// states without this alternative contribute an arbitrary representative
			var rep Value
			for _, v := range acc.vals {
				if v != nil {
					rep = v
					break
				}
			}
			for i := range acc.vals {
				if acc.vals[i] == nil {
					acc.vals[i] = rep
				}
			}
			out.Alts = append(out.Alts, IfaceAlt{T: acc.t, Val: ex.mergeVals(sel, acc.vals, what)})
		}
		return out
	case *VFunc:
		for _, v := range vals[1:] {
			f, ok := v.(*VFunc)
			if !ok || f.Fn != x.Fn || f.Sym != x.Sym || len(f.Env) != len(x.Env) {
				panic(mergeFail{"function value mismatch " + what})
			}
		}
		out := &VFunc{Fn: x.Fn, Sym: x.Sym, Nil: x.Nil, Recv: x.Recv}
		for ei := range x.Env {
			sub := make([]Value, len(vals))
			for i, v := range vals {
				sub[i] = v.(*VFunc).Env[ei]
			}
			out.Env = append(out.Env, ex.mergeVals(sel, sub, what))
		}
		return out
	case *VOpaque:
		ts := make([]*Term, len(vals))
		for i, v := range vals {
			o, ok := v.(*VOpaque)
			if !ok {
				panic(mergeFail{"opaque mismatch " + what})
			}
			ts[i] = o.ID
		}
		return &VOpaque{T: x.T, ID: iteChain(sel, ts)}
	case *VIter:
		for _, v := range vals[1:] {
			it, ok := v.(*VIter)
			if !ok || it.Cell != x.Cell {
				panic(mergeFail{"iterator mismatch " + what})
			}
		}
		return x
	case *VRType:
		for _, v := range vals[1:] {
			r, ok := v.(*VRType)
			if !ok || !types.Identical(r.T, x.T) {
				panic(mergeFail{"reflect type mismatch " + what})
			}
		}
		return x
	case *VReflect:
		var ptrs, vs []Value
		for _, v := range vals {
			r, ok := v.(*VReflect)
			if !ok || (r.T == nil) != (x.T == nil) || (r.T != nil && !types.Identical(r.T, x.T)) || r.CanSet != x.CanSet || r.Method != x.Method || (r.Ptr == nil) != (x.Ptr == nil) {
				panic(mergeFail{"reflect value mismatch " + what})
			}
			if r.Ptr != nil {
				ptrs = append(ptrs, r.Ptr)
			} else {
				vs = append(vs, r.Val)
			}
		}
		out := &VReflect{T: x.T, CanSet: x.CanSet, Method: x.Method, Recv: x.Recv}
		if x.Ptr != nil {
			out.Ptr = ex.mergeVals(sel, ptrs, what).(*VPtr)
		} else if x.T != nil && x.Method == "" {
			out.Val = ex.mergeVals(sel, vs, what)
		} else {
			out.Val = x.Val
		}
		return out
	case vNil:
		return x
	case nil:
		for _, v := range vals {
			if v != nil {
				panic(mergeFail{"nil mismatch " + what})
			}
		}
		return nil
	}
	panic(mergeFail{fmt.Sprintf("cannot merge %T (%s)", vals[0], what)})
}

var _ ssa.Value
