package vc

// Assumed contracts ("models") of library functions. Every model used by a
// function's proof is listed in the evidence as part of the trusted base.

import (
	"fmt"
	"go/types"
	"os"
	"sort"
	"strings"

	"golang.org/x/tools/go/ssa"
)

type libModel func(ex *Exec, st *State, instr ssa.Instruction, args []Value) Value

var libModels = map[string]libModel{}

func reg(name string, m libModel) { libModels[name] = m }

func (ex *Exec) newError(st *State, what string) *VIface {
	tag := ex.fresh("err.tag", SInt)
	st.assume(Gt(tag, IntLit(0)))
	return &VIface{Tag: tag, Pay: ex.fresh("err.pay", SInt)}
}

// symbolic error result (nil or not)
func (ex *Exec) maybeError(st *State, name string) *VIface {
	tag := ex.fresh(name+".tag", SInt)
	st.assume(Ge(tag, IntLit(0)))
	return &VIface{Tag: tag, Pay: ex.fresh(name+".pay", SInt)}
}

func tuple(vs ...Value) *VTuple { return &VTuple{Vals: vs} }

func init() {
	reg("fmt.Errorf", func(ex *Exec, st *State, instr ssa.Instruction, args []Value) Value {
		return ex.newError(st, "fmt.Errorf")
	})
	reg("errors.New", func(ex *Exec, st *State, instr ssa.Instruction, args []Value) Value {
		return ex.newError(st, "errors.New")
	})
	reg("fmt.Printf", func(ex *Exec, st *State, instr ssa.Instruction, args []Value) Value {
		return tuple(ex.fresh("n", SInt), ex.maybeError(st, "printf"))
	})
	reg("fmt.Println", libModels["fmt.Printf"])
	reg("fmt.Fprintf", libModels["fmt.Printf"])
	reg("fmt.Fprintln", libModels["fmt.Printf"])
	reg("fmt.Sprintf", modelSprintf)

	// strings.Builder: ghost (chars, len)
	reg("(*strings.Builder).Grow", func(ex *Exec, st *State, instr ssa.Instruction, args []Value) Value {
		n := args[1].(*Term)
		ex.check(st, "libpre", instr, Ge(n, IntLit(0)), "strings.Builder.Grow: negative count panics")
		return &VTuple{}
	})
	reg("(*strings.Builder).WriteRune", func(ex *Exec, st *State, instr ssa.Instruction, args []Value) Value {
		p := args[0].(*VPtr)
		r := args[1].(*Term)
		b := ex.load(st, p, instr).(*VStruct)
		chars, n := b.Fields[0].(*Term), b.Fields[1].(*Term)
		if !ex.decide(st, And(Le(IntLit(0), r), Lt(r, IntLit(128)))) {
			// multi-byte rune: 2..4 arbitrary bytes
			w := ex.fresh("runew", SInt)
			st.assume(And(Le(IntLit(2), w), Le(w, IntLit(4))))
			nc := ex.fresh("chars", SArr)
			k := Var("k!wr", SInt)
			st.assume(Forall([]*Term{k}, Implies(And(Le(IntLit(0), k), Lt(k, n)), Eq(Select(nc, k), Select(chars, k)))))
			ex.store(st, p, &VStruct{T: b.T, Names: b.Names, Fields: []Value{nc, Add(n, w)}}, instr)
			return tuple(w, nilIface())
		}
		ex.store(st, p, &VStruct{T: b.T, Names: b.Names, Fields: []Value{Store(chars, n, r), Add(n, IntLit(1))}}, instr)
		return tuple(IntLit(1), nilIface())
	})
	reg("(*strings.Builder).WriteByte", func(ex *Exec, st *State, instr ssa.Instruction, args []Value) Value {
		p := args[0].(*VPtr)
		r := args[1].(*Term)
		b := ex.load(st, p, instr).(*VStruct)
		chars, n := b.Fields[0].(*Term), b.Fields[1].(*Term)
		ex.store(st, p, &VStruct{T: b.T, Names: b.Names, Fields: []Value{Store(chars, n, r), Add(n, IntLit(1))}}, instr)
		return nilIface()
	})
	reg("(*strings.Builder).String", func(ex *Exec, st *State, instr ssa.Instruction, args []Value) Value {
		p := args[0].(*VPtr)
		b := ex.load(st, p, instr).(*VStruct)
		chars, n := b.Fields[0].(*Term), b.Fields[1].(*Term)
		s := ex.fresh("built", SStr)
		st.assume(Eq(App("slen", SInt, s), n))
		if cnt, ok := n.Int64(); ok && cnt <= 64 {
			for i := int64(0); i < cnt; i++ {
				st.assume(Eq(App("sat", SInt, s, IntLit(i)), Select(chars, IntLit(i))))
			}
		} else {
			k := Var("k!bs", SInt)
			st.assume(Forall([]*Term{k}, Implies(And(Le(IntLit(0), k), Lt(k, n)), Eq(App("sat", SInt, s, k), Select(chars, k)))))
		}
		return s
	})
	reg("(*strings.Builder).Len", func(ex *Exec, st *State, instr ssa.Instruction, args []Value) Value {
		p := args[0].(*VPtr)
		b := ex.load(st, p, instr).(*VStruct)
		return b.Fields[1]
	})
}

// modelSprintf: opaque string unless the format is one with a contract.
func modelSprintf(ex *Exec, st *State, instr ssa.Instruction, args []Value) Value {
	format, _ := args[0].(*Term)
	if format != nil {
		if f, ok := ex.strLitContent(format); ok {
			if h, ok := sprintfModels[f]; ok {
				if r := h(ex, st, instr, ex.varargs(st, args[1])); r != nil {
					return r
				}
			}
		}
	}
	return ex.fresh("sprintf", SStr)
}

var sprintfModels = map[string]func(ex *Exec, st *State, instr ssa.Instruction, args []Value) Value{}

// varargs reads the elements of a variadic []any argument when its length is concrete.
func (ex *Exec) varargs(st *State, v Value) []Value {
	s, ok := v.(*VSlice)
	if !ok {
		return nil
	}
	n, ok := s.Len.Int64()
	if !ok || n > 32 {
		return nil
	}
	var out []Value
	for i := int64(0); i < n; i++ {
		out = append(out, ex.heapLoad(st, s.Elem, s.Ref, Idx(s.Off, IntLit(i))))
	}
	return out
}

// altMethodModel: models for methods invoked through an interface whose dynamic type is a library type.
func (ex *Exec) altMethodModel(alt *IfaceAlt, method string) libModel {
	return nil
}

// ---------------------------------------------------------------------------
// globals

type globalInit struct {
	done bool
	vals map[*ssa.Global]Value
}

func (ex *Exec) globalObject(st *State, g *ssa.Global) *Object {
	key := g.Pkg.Pkg.Path() + "." + g.Name()
	obj, ok := ex.globals[key]
	if !ok {
		obj = ex.newObject(key, g.Type().(*types.Pointer).Elem(), false)
		if ex.globals == nil {
			ex.globals = map[string]*Object{}
		}
		ex.globals[key] = obj
	}
	if _, ok := st.mem[obj]; !ok {
		st.mem[obj] = ex.globalValue(st, g, key)
	}
	return obj
}

func (ex *Exec) globalValue(st *State, g *ssa.Global, key string) Value {
	et := g.Type().(*types.Pointer).Elem()
	if h, ok := libGlobals[key]; ok {
		return h(ex, st, et)
	}
	if strings.HasPrefix(g.Pkg.Pkg.Path(), ex.ModulePath) {
		if v, ok := ex.moduleGlobal(st, g, key); ok {
			return v
		}
	}
	return ex.symbolicValueSafe(st, et, key)
}

func (ex *Exec) symbolicValueSafe(st *State, t types.Type, name string) (v Value) {
	defer func() {
		if r := recover(); r != nil {
			if _, ok := r.(unsupportedErr); ok {
				v = &VOpaque{T: t, ID: Var(name+".$opaque", SInt)}
				return
			}
			panic(r)
		}
	}()
	return ex.symbolicValue(st, t, name, 0)
}

var libGlobals = map[string]func(ex *Exec, st *State, t types.Type) Value{}

// moduleGlobal: value of a package-level variable of the module, obtained by executing
// the package initialiser symbolically (once), provided the variable is assigned nowhere else.
func (ex *Exec) moduleGlobal(st *State, g *ssa.Global, key string) (Value, bool) {
	pkg := g.Pkg
	gi := ex.ensureInit(pkg)
	if !ex.globalIsConstant(g) {
		return nil, false
	}
	v, ok := gi.vals[g]
	return v, ok
}

// globalIsConstant: no store to the global outside the package initialiser.
func (ex *Exec) globalIsConstant(g *ssa.Global) bool {
	if ex.mutGlobals == nil {
		ex.mutGlobals = map[*ssa.Global]bool{}
		for fn := range allFunctions(ex.Prog) {
			if fn.Pkg == nil || !strings.HasPrefix(fn.Pkg.Pkg.Path(), ex.ModulePath) {
				continue
			}
			if fn.Name() == "init" || strings.HasPrefix(fn.Name(), "init#") {
				continue
			}
			for _, b := range fn.Blocks {
				for _, in := range b.Instrs {
					var ops [12]*ssa.Value
					for _, op := range in.Operands(ops[:0]) {
						if gg, ok := (*op).(*ssa.Global); ok {
							// any use other than a direct load counts as a possible write
							if u, isLoad := in.(*ssa.UnOp); isLoad && u.X == gg {
								continue
							}
							ex.mutGlobals[gg] = true
						}
					}
				}
			}
		}
	}
	return !ex.mutGlobals[g]
}

// runInit executes the package initialiser in a scratch run and records the globals' values.
func (ex *Exec) runInit(pkg *ssa.Package, gi *globalInit) {
	initFn := pkg.Func("init")
	if initFn == nil || initFn.Blocks == nil {
		return
	}
	saved := ex.cur
	defer func() {
		ex.cur = saved
		if r := recover(); r != nil {
			if u, ok := r.(unsupportedErr); ok {
				if os.Getenv("GOVC_DEBUG_INIT") != "" {
					fmt.Fprintf(os.Stderr, "init of %s stopped: %s\n", pkg.Pkg.Path(), u.msg)
				}
				return
			}
			if _, ok := r.(splitRequest); ok {
				if os.Getenv("GOVC_DEBUG_INIT") != "" {
					fmt.Fprintf(os.Stderr, "init of %s stopped: case split\n", pkg.Pkg.Path())
				}
				return
			}
			panic(r)
		}
	}()
	ex.cur = &funcRun{key: "init", fn: initFn, inlined: map[string]bool{}, libCalls: map[string]bool{},
		unmodelled: map[string]bool{}, contractsUsed: map[string]bool{}, trustedUsed: map[string]bool{},
		siteIDs: map[*ssa.Function]map[ssa.Instruction]int{}, ensuresAnteReached: map[string]bool{}, allocObjs: map[string]*Object{}, strLens: map[Key]int64{}}
	st := ex.newState()
	st.paramVals = map[string]Value{}
	if ex.initAlloc == 0 {
		ex.initAlloc = 1
	}
	st.alloc = IntLit(ex.initAlloc)
	st.alloc0 = IntLit(0)
	var nb int64 = 1000 + ex.initAlloc*100
	st.nbox = &nb
	// the init guard is false on entry
	fr := &Frame{fn: initFn, block: initFn.Blocks[0], regs: map[ssa.Value]Value{}, visits: map[*ssa.BasicBlock]int{}}
	st.frames = []*Frame{fr}
	ex.inInit = true
	savedMerge := ex.Merge
	ex.Merge = false
	defer func() { ex.inInit = false; ex.Merge = savedMerge }()
	for _, m := range pkg.Members {
		if g, ok := m.(*ssa.Global); ok {
			obj := ex.globalObjectRaw(g)
			if g.Name() == "init$guard" {
				st.mem[obj] = False
			} else {
				st.mem[obj] = ex.zeroValueSafe(g.Type().(*types.Pointer).Elem())
			}
		}
	}
	steps := 0
	for steps < 200000 {
		steps++
		if !ex.step(st) {
			break
		}
	}
	for _, m := range pkg.Members {
		if g, ok := m.(*ssa.Global); ok {
			obj := ex.globalObjectRaw(g)
			if v, ok := st.mem[obj]; ok && v != nil {
				gi.vals[g] = v
			}
		}
	}
	gi.done = true
	ex.initFacts = append(ex.initFacts, st.pc...)
	ex.initHeaps = mergeHeaps(ex.initHeaps, st.heaps)
	if a, ok := st.alloc.Int64(); ok {
		ex.initAlloc = a
	}
	if ex.initMem == nil {
		ex.initMem = map[*Object]Value{}
		ex.initBoxes = map[int64]Value{}
	}
	for o, v := range st.mem {
		ex.initMem[o] = v
	}
	for k, v := range st.boxes {
		ex.initBoxes[k] = v
	}
}

func mergeHeaps(a, b map[string]*Term) map[string]*Term {
	if a == nil {
		a = map[string]*Term{}
	}
	for k, v := range b {
		a[k] = v
	}
	return a
}

func (ex *Exec) zeroValueSafe(t types.Type) (v Value) {
	defer func() {
		if r := recover(); r != nil {
			v = nil
		}
	}()
	return ex.zeroValue(t)
}

func (ex *Exec) globalObjectRaw(g *ssa.Global) *Object {
	key := g.Pkg.Pkg.Path() + "." + g.Name()
	if ex.globals == nil {
		ex.globals = map[string]*Object{}
	}
	obj, ok := ex.globals[key]
	if !ok {
		obj = ex.newObject(key, g.Type().(*types.Pointer).Elem(), false)
		ex.globals[key] = obj
	}
	return obj
}

// globalRow: the heap row of a package-level array variable. It is allocated when the variable is first met
// in the run of its package's initialiser (a concrete reference below the entry allocation counter of every
// function); outside the initialiser a variable that the package also writes elsewhere has unknown content.
func (ex *Exec) globalRow(st *State, g *ssa.Global, at *types.Array) (*Term, bool) {
	if ex.globalRows == nil {
		ex.globalRows = map[*ssa.Global]int64{}
	}
	if ref, ok := ex.globalRows[g]; ok {
		r := IntLit(ref)
		if !ex.inInit && !ex.globalIsConstant(g) {
			key := "$globalrow!" + g.Pkg.Pkg.Path() + "." + g.Name()
			if _, done := st.ghost[key]; !done {
				st.ghost[key] = True
				leaves, err := ex.flattenType(at.Elem())
				if err != nil {
					return nil, false
				}
				for _, lf := range leaves {
					hk := heapKey(at.Elem(), lf)
					h := st.heap(hk, HeapOf(lf.Sort))
					st.heaps[hk] = Store(h, r, ex.fresh("row", ArrayOf(lf.Sort)))
				}
			}
		}
		return r, true
	}
	if !ex.inInit {
		ex.ensureInit(g.Pkg)
		if ref, ok := ex.globalRows[g]; ok {
			return IntLit(ref), true
		}
		return nil, false
	}
	if _, err := ex.flattenType(at.Elem()); err != nil {
		return nil, false
	}
	ref := ex.allocRow(st, at.Elem())
	v, ok := ref.Int64()
	if !ok {
		return nil, false
	}
	ex.globalRows[g] = v
	return ref, true
}

// RunInits executes the initialisers of all module packages (once, at session start), in a fixed order:
// by package path, every package after the module packages it imports. (The order matters: an initialiser
// that reads a global of a package whose initialiser has not run yet would start that run in the middle of
// its own, and the two runs would hand out the same references.)
func (ex *Exec) RunInits() {
	var pkgs []*ssa.Package
	for _, p := range ex.Prog.AllPackages() {
		if strings.HasPrefix(p.Pkg.Path(), ex.ModulePath) {
			pkgs = append(pkgs, p)
		}
	}
	sort.Slice(pkgs, func(i, j int) bool { return pkgs[i].Pkg.Path() < pkgs[j].Pkg.Path() })
	for _, p := range pkgs {
		ex.ensureInit(p)
	}
}

func (ex *Exec) ensureInit(p *ssa.Package) *globalInit {
	if ex.ginit == nil {
		ex.ginit = map[*ssa.Package]*globalInit{}
	}
	if gi := ex.ginit[p]; gi != nil {
		return gi
	}
	gi := &globalInit{vals: map[*ssa.Global]Value{}}
	ex.ginit[p] = gi
	imps := append([]*types.Package(nil), p.Pkg.Imports()...)
	sort.Slice(imps, func(i, j int) bool { return imps[i].Path() < imps[j].Path() })
	for _, imp := range imps {
		if strings.HasPrefix(imp.Path(), ex.ModulePath) {
			if ip := ex.Prog.Package(imp); ip != nil {
				ex.ensureInit(ip)
			}
		}
	}
	ex.runInit(p, gi)
	return gi
}
