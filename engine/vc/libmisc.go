package vc

import (
	"fmt"
	"go/types"
	"regexp"
	"strconv"
	"strings"

	"golang.org/x/tools/go/ssa"
)

// knownStrLen: concrete length of a string term if the path knows it.
func (ex *Exec) knownStrLen(st *State, s *Term) (int64, bool) {
	if c, ok := ex.strLitContent(s); ok {
		return int64(len(c)), true
	}
	if ex.cur != nil {
		if n, ok := ex.cur.strLens[s.Key()]; ok {
			return n, true
		}
	}
	// look for an assumption (= (slen s) K)
	for _, f := range st.pc {
		if f.Op == "=" && len(f.Args) == 2 && f.Args[1].IsIntLit() {
			a := f.Args[0]
			if a.Op == "app" && a.Name == "slen" && len(a.Args) == 1 && Equal(a.Args[0], s) {
				return f.Args[1].Int64()
			}
		}
	}
	return 0, false
}

func (ex *Exec) byteWitnesses(st *State, v *Term, n int) []*Term {
	// v = b0 + 256 b1 + ... with 0 <= bi < 256 (v is known to be in [0, 256^n))
	bs := make([]*Term, n)
	sum := IntLit(0)
	mul := int64(1)
	for i := 0; i < n; i++ {
		if v.IsIntLit() {
			x, _ := v.Int64()
			bs[i] = IntLit((x / mul) % 256)
		} else {
			bs[i] = ex.fresh("byte", SInt)
			st.assume(And(Le(IntLit(0), bs[i]), Lt(bs[i], IntLit(256))))
		}
		sum = Add(sum, Mul(bs[i], IntLit(mul)))
		mul *= 256
	}
	if !v.IsIntLit() {
		st.assume(Eq(v, sum))
	}
	return bs
}

func init() {
	putUint := func(n int, little bool) libModel {
		return func(ex *Exec, st *State, instr ssa.Instruction, args []Value) Value {
			b := args[1].(*VSlice)
			v := args[2].(*Term)
			ex.check(st, "libpre", instr, Ge(b.Len, IntLit(int64(n))), fmt.Sprintf("binary.PutUint%d on a slice shorter than %d bytes panics", n*8, n))
			ex.checkWritable(st, b.Ref, instr)
			bs := ex.byteWitnesses(st, v, n)
			h := st.heap("H.int", SHInt)
			row := Select(h, b.Ref)
			for i := 0; i < n; i++ {
				k := i
				if !little {
					k = n - 1 - i
				}
				row = Store(row, Idx(b.Off, IntLit(int64(k))), bs[i])
			}
			st.heaps["H.int"] = Store(h, b.Ref, row)
			return &VTuple{}
		}
	}
	getUint := func(n int, little bool) libModel {
		return func(ex *Exec, st *State, instr ssa.Instruction, args []Value) Value {
			b := args[1].(*VSlice)
			ex.check(st, "libpre", instr, Ge(b.Len, IntLit(int64(n))), fmt.Sprintf("binary.Uint%d on a slice shorter than %d bytes panics", n*8, n))
			sum := IntLit(0)
			mul := int64(1)
			for i := 0; i < n; i++ {
				k := i
				if !little {
					k = n - 1 - i
				}
				x := ex.heapLoad(st, types.Typ[types.Uint8], b.Ref, Idx(b.Off, IntLit(int64(k)))).(*Term)
				sum = Add(sum, Mul(x, IntLit(mul)))
				mul *= 256
			}
			return sum
		}
	}
	reg("(encoding/binary.littleEndian).PutUint32", putUint(4, true))
	reg("(encoding/binary.littleEndian).PutUint16", putUint(2, true))
	reg("(encoding/binary.bigEndian).PutUint16", putUint(2, false))
	reg("(encoding/binary.bigEndian).PutUint32", putUint(4, false))
	reg("(encoding/binary.littleEndian).Uint32", getUint(4, true))
	reg("(encoding/binary.littleEndian).Uint16", getUint(2, true))
	reg("(encoding/binary.bigEndian).Uint16", getUint(2, false))
	reg("(encoding/binary.bigEndian).Uint32", getUint(4, false))
	libGlobals["encoding/binary.LittleEndian"] = func(ex *Exec, st *State, t types.Type) Value { return ex.zeroValue(t) }
	libGlobals["encoding/binary.BigEndian"] = func(ex *Exec, st *State, t types.Type) Value { return ex.zeroValue(t) }

	reg("bytes.Equal", func(ex *Exec, st *State, instr ssa.Instruction, args []Value) Value {
		a, b := args[0].(*VSlice), args[1].(*VSlice)
		h := st.heap("H.int", SHInt)
		n, ok := b.Len.Int64()
		if !ok {
			a, b = b, a
			n, ok = b.Len.Int64()
		}
		if ok && n <= 64 {
			conj := []*Term{Eq(a.Len, IntLit(n))}
			for i := int64(0); i < n; i++ {
				conj = append(conj, Eq(Select(Select(h, a.Ref), Idx(a.Off, IntLit(i))), Select(Select(h, b.Ref), Idx(b.Off, IntLit(i)))))
			}
			return And(conj...)
		}
		k := Var("k!beq", SInt)
		return And(Eq(a.Len, b.Len), Forall([]*Term{k}, Implies(And(Le(IntLit(0), k), Lt(k, a.Len)),
			Eq(Select(Select(h, a.Ref), Idx(a.Off, k)), Select(Select(h, b.Ref), Idx(b.Off, k))))))
	})

	// ---- encoding/json on strings (abstract quoting, spec/json.spec) ----
	reg("encoding/json.Marshal", func(ex *Exec, st *State, instr ssa.Instruction, args []Value) Value {
		iv, ok := args[0].(*VIface)
		if ok && len(iv.Alts) == 1 {
			if str, isStr := iv.Alts[0].Val.(*Term); isStr && str.Sort == SStr {
				bt := types.Typ[types.Uint8]
				ref := ex.allocRow(st, bt)
				h := st.heap("H.int", SHInt)
				row := ex.fresh("json.bytes", SArr)
				st.heaps["H.int"] = Store(h, ref, row)
				n := ex.fresh("json.len", SInt)
				i := Var("i!js", SInt)
				st.assume(And(Le(IntLit(2), n), Le(n, IntLit(1<<40)),
					Forall([]*Term{i}, And(Le(IntLit(0), Select(row, i)), Le(Select(row, i), IntLit(255)))),
					App("json.isstr", SBool, row, n), Eq(App("json.unq", SStr, row, n), str)))
				return tuple(&VSlice{Ref: ref, Off: IntLit(0), Len: n, Cap: n, Elem: bt}, nilIface())
			}
		}
		ex.cur.unmodelled["encoding/json.Marshal of a non-string value"] = true
		bs := ex.symbolicValueAt(st, types.NewSlice(types.Typ[types.Uint8]), ex.fresh("json.out", SInt).Name, st.alloc)
		return tuple(bs, ex.maybeError(st, "json.Marshal"))
	})
	reg("encoding/json.Unmarshal", func(ex *Exec, st *State, instr ssa.Instruction, args []Value) Value {
		b, okb := args[0].(*VSlice)
		iv, ok := args[1].(*VIface)
		if okb && ok && len(iv.Alts) == 1 {
			if p, isPtr := iv.Alts[0].Val.(*VPtr); isPtr && isString(p.T) {
				h := st.heap("H.int", SHInt)
				var row *Term
				if o, lit := b.Off.Int64(); lit && o == 0 {
					row = Select(h, b.Ref)
				} else {
					row = App("rowview", SArr, Select(h, b.Ref), b.Off)
				}
				if ex.decide(st, App("json.isstr", SBool, row, b.Len)) {
					ex.store(st, p, App("json.unq", SStr, row, b.Len), instr)
					return nilIface()
				}
				// not a JSON string (a number, null, garbage ...): an error, or no error with an arbitrary string
				ex.store(st, p, ex.fresh("json.other", SStr), instr)
				return ex.maybeError(st, "json.Unmarshal")
			}
		}
		// reflective struct/map decoding has no contract: everything reachable from the target is havocked
		ex.cur.unmodelled["encoding/json.Unmarshal into a value that is not a *string (result havocked)"] = true
		ex.havocReachable(st, args[1])
		return ex.maybeError(st, "json.Unmarshal")
	})

	// ---- regexp ----
	reg("regexp.MustCompile", func(ex *Exec, st *State, instr ssa.Instruction, args []Value) Value {
		pat, ok := ex.strLitContent(args[0].(*Term))
		if !ok {
			ex.unsupported("regexp.MustCompile of a non-constant pattern")
		}
		if _, err := regexp.Compile(pat); err != nil {
			ex.oblige(st, "panic", "panic@regexp.MustCompile", False, instr.Pos(), "regexp.MustCompile panics on "+pat)
		}
		return ex.regexpValue(st, pat)
	})
	reg("(*regexp.Regexp).FindStringSubmatch", modelFindStringSubmatch)
	reg("(*regexp.Regexp).MatchString", func(ex *Exec, st *State, instr ssa.Instruction, args []Value) Value {
		pat := ex.regexpPattern(st, args[0], instr)
		s := args[1].(*Term)
		if c, ok := ex.strLitContent(s); ok {
			return BoolLit(regexp.MustCompile(pat).MatchString(c))
		}
		if m := compileSimpleRegexp(pat); m != nil {
			cond, _ := m.constraints(ex, st, s)
			if cond != nil {
				return cond
			}
		}
		ex.cur.libCalls["regexp pattern "+pat+" (no contract: arbitrary result)"] = true
		return ex.fresh("rematch", SBool)
	})
	reg("(*regexp.Regexp).ReplaceAllString", func(ex *Exec, st *State, instr ssa.Instruction, args []Value) Value {
		pat := ex.regexpPattern(st, args[0], instr)
		s, r := args[1].(*Term), args[2].(*Term)
		if c, ok := ex.strLitContent(s); ok {
			if rc, ok := ex.strLitContent(r); ok {
				return ex.strLit(regexp.MustCompile(pat).ReplaceAllString(c, rc))
			}
		}
		ex.cur.libCalls["regexp.ReplaceAllString pattern "+pat+" (no contract: arbitrary result)"] = true
		return ex.fresh("rereplace", SStr)
	})

	// ---- strconv ----
	reg("strconv.Atoi", func(ex *Exec, st *State, instr ssa.Instruction, args []Value) Value {
		s := args[0].(*Term)
		return ex.modelParseDecimal(st, s, 64, true)
	})
	reg("strconv.ParseUint", func(ex *Exec, st *State, instr ssa.Instruction, args []Value) Value {
		s := args[0].(*Term)
		base, _ := args[1].(*Term).Int64()
		bits, _ := args[2].(*Term).Int64()
		if c, ok := ex.strLitContent(s); ok {
			return ex.concreteParseUint(st, c, int(base), int(bits))
		}
		if base == 10 {
			return ex.modelParseDecimal(st, s, int(bits), false)
		}
		v := ex.fresh("parseuint", SInt)
		st.assume(And(Le(IntLit(0), v), Lt(v, BigLit(pow2(bits)))))
		return tuple(v, ex.maybeError(st, "parseuint"))
	})

	// ---- fmt.Sprintf formats with a contract ----
	sprintfModels["%02d%02d"] = func(ex *Exec, st *State, instr ssa.Instruction, args []Value) Value {
		return sprintf2x2(ex, st, args, -1)
	}
	sprintfModels["%02d:%02d"] = func(ex *Exec, st *State, instr ssa.Instruction, args []Value) Value {
		return sprintf2x2(ex, st, args, ':')
	}
	sprintfModels["%08v"] = sprintfPad8
}

func ifaceScalar(v Value) *Term {
	iv, ok := v.(*VIface)
	if !ok || len(iv.Alts) != 1 {
		return nil
	}
	t, _ := iv.Alts[0].Val.(*Term)
	return t
}

func sprintf2x2(ex *Exec, st *State, args []Value, sep int) Value {
	if len(args) != 2 {
		return nil
	}
	a, b := ifaceScalar(args[0]), ifaceScalar(args[1])
	if a == nil || b == nil || a.Sort != SInt || b.Sort != SInt {
		return nil
	}
	if !ex.decide(st, And(Le(IntLit(0), a), Le(a, IntLit(99)), Le(IntLit(0), b), Le(b, IntLit(99)))) {
		// two 64-bit integers: at most 20 characters each
		r := ex.fresh("sprintf", SStr)
		st.assume(Le(App("slen", SInt, r), IntLit(41)))
		return r
	}
	r := ex.fresh("sprintf", SStr)
	n := int64(4)
	if sep >= 0 {
		n = 5
	}
	st.assume(Eq(App("slen", SInt, r), IntLit(n)))
	pos := int64(0)
	put := func(c *Term) {
		st.assume(Eq(App("sat", SInt, r, IntLit(pos)), c))
		pos++
	}
	x, y := twoDigits(a)
	put(x)
	put(y)
	if sep >= 0 {
		put(IntLit(int64(sep)))
	}
	x, y = twoDigits(b)
	put(x)
	put(y)
	return r
}

// sprintfPad8: fmt.Sprintf("%08v", n) of an unsigned value: decimal digits, zero padded to 8.
// The digits are digit witnesses d_i with n = sum d_i 10^k.
func sprintfPad8(ex *Exec, st *State, instr ssa.Instruction, args []Value) Value {
	if len(args) != 1 {
		return nil
	}
	v := ifaceScalar(args[0])
	if v == nil || v.Sort != SInt {
		return nil
	}
	iv := args[0].(*VIface)
	ii, ok := intTypeInfo(iv.Alts[0].T)
	if !ok || ii.signed {
		return nil
	}
	width := 8
	if !ex.decide(st, Lt(v, IntLit(100000000))) {
		width = 9
		if !ex.decide(st, Lt(v, IntLit(1000000000))) {
			width = 10
			if !ex.decide(st, Lt(v, IntLit(10000000000))) {
				return ex.fresh("sprintf", SStr)
			}
		}
	}
	r := ex.fresh("sprintf", SStr)
	st.assume(Eq(App("slen", SInt, r), IntLit(int64(width))))
	sum := IntLit(0)
	for i := 0; i < width; i++ {
		d := ex.fresh("digit", SInt)
		st.assume(And(Le(IntLit(0), d), Le(d, IntLit(9))))
		st.assume(Eq(App("sat", SInt, r, IntLit(int64(i))), Add(IntLit(48), d)))
		sum = Add(Mul(sum, IntLit(10)), d)
	}
	st.assume(Eq(v, sum))
	if width > 8 {
		// no leading zero beyond the pad width
		st.assume(Gt(App("sat", SInt, r, IntLit(0)), IntLit(48)))
	}
	return r
}

// modelParseDecimal: strconv.Atoi / ParseUint(s, 10, bits) for a string of known small length.
func (ex *Exec) modelParseDecimal(st *State, s *Term, bits int, signedOK bool) Value {
	n, ok := ex.knownStrLen(st, s)
	if c, isLit := ex.strLitContent(s); isLit && signedOK {
		var v int64
		if _, err := fmt.Sscanf(c, "%d", &v); err == nil && fmt.Sprintf("%d", v) == c {
			return tuple(IntLit(v), nilIface())
		}
	}
	if !ok || n > 18 {
		v := ex.fresh("atoi", SInt)
		if signedOK {
			st.assume(rangeFact(types.Typ[types.Int], v))
		} else {
			st.assume(And(Le(IntLit(0), v), Lt(v, BigLit(pow2(int64(bits))))))
		}
		return tuple(v, ex.maybeError(st, "atoi"))
	}
	if n == 0 {
		return tuple(IntLit(0), ex.newError(st, "atoi"))
	}
	var digits []*Term
	conj := []*Term{}
	for i := int64(0); i < n; i++ {
		c := App("sat", SInt, s, IntLit(i))
		digits = append(digits, c)
		conj = append(conj, isDigitT(c))
	}
	if !ex.decide(st, And(conj...)) {
		// sign characters, underscores ...: not modelled
		v := ex.fresh("atoi", SInt)
		st.assume(rangeFact(types.Typ[types.Int], v))
		return tuple(v, ex.maybeError(st, "atoi"))
	}
	val := IntLit(0)
	for _, c := range digits {
		val = Add(Mul(val, IntLit(10)), Sub(c, IntLit(48)))
	}
	if !signedOK && bits < 64 {
		if !ex.decide(st, Lt(val, BigLit(pow2(int64(bits))))) {
			return tuple(BigLit(pow2(int64(bits)).Sub(pow2(int64(bits)), pow2(0))), ex.newError(st, "range"))
		}
	}
	return tuple(val, nilIface())
}

func (ex *Exec) concreteParseUint(st *State, c string, base, bits int) Value {
	var v uint64
	var err error
	v, err = parseUintReal(c, base, bits)
	if err != nil {
		return tuple(IntLit(int64(v)), ex.newError(st, "parseuint"))
	}
	return tuple(IntLit(int64(v)), nilIface())
}

// ---------------------------------------------------------------------------
// regexp values

func (ex *Exec) regexpValue(st *State, pat string) Value {
	if ex.regexps == nil {
		ex.regexps = map[int64]string{}
	}
	var id int64 = -1
	for k, v := range ex.regexps {
		if v == pat {
			id = k
		}
	}
	if id < 0 {
		id = int64(len(ex.regexps) + 1)
		ex.regexps[id] = pat
	}
	rt := ex.lookupNamed("regexp.Regexp")
	obj := ex.newObject("regexp", rt, true)
	st.mem[obj] = &VStruct{T: rt, Names: []string{"id"}, Fields: []Value{IntLit(id)}}
	return &VPtr{Nil: False, Obj: obj, T: rt}
}

func (ex *Exec) regexpPattern(st *State, v Value, instr ssa.Instruction) string {
	p := v.(*VPtr)
	o := ex.load(st, p, instr).(*VStruct)
	id, ok := o.Fields[0].(*Term).Int64()
	if !ok {
		ex.unsupported("regexp value not statically known")
	}
	pat, ok := ex.regexps[id]
	if !ok {
		ex.unsupported("unknown regexp id %d", id)
	}
	return pat
}

// simple anchored regexps: ^ item* $ with item = [0-9]{n} | [0-9]{m,n} | [0-9]+ | literal, possibly grouped.
type reItem struct {
	class string // "digit" or "" for literal
	lit   byte
	min   int
	max   int // -1 = unbounded
	group int // capture group number (0 = none)
}

type simpleRe struct {
	items  []reItem
	groups int
}

var reItemRe = regexp.MustCompile(`^(\()?(\[0-9\]|\\\.|[A-Za-z0-9:\-\. ])(\{(\d+)(,(\d+))?\}|\+)?(\))?`)

func compileSimpleRegexp(pat string) *simpleRe {
	if !strings.HasPrefix(pat, "^") || !strings.HasSuffix(pat, "$") {
		return nil
	}
	body := pat[1 : len(pat)-1]
	sr := &simpleRe{}
	inGroup := 0
	for len(body) > 0 {
		m := reItemRe.FindStringSubmatch(body)
		if m == nil {
			return nil
		}
		if m[1] == "(" {
			if inGroup != 0 {
				return nil
			}
			sr.groups++
			inGroup = sr.groups
		}
		it := reItem{min: 1, max: 1, group: inGroup}
		switch {
		case m[2] == "[0-9]":
			it.class = "digit"
		case strings.HasPrefix(m[2], "\\"):
			it.lit = m[2][1]
		case m[2] == ".":
			return nil
		default:
			it.lit = m[2][0]
		}
		if m[3] == "+" {
			it.max = -1
		} else if m[3] != "" {
			fmt.Sscanf(m[4], "%d", &it.min)
			it.max = it.min
			if m[6] != "" {
				fmt.Sscanf(m[6], "%d", &it.max)
			}
		}
		if m[7] == ")" {
			if inGroup == 0 {
				return nil
			}
			inGroup = 0
		}
		sr.items = append(sr.items, it)
		body = body[len(m[0]):]
	}
	if inGroup != 0 {
		return nil
	}
	return sr
}

// constraints: match condition and, for fixed-width patterns, the group extents.
func (sr *simpleRe) constraints(ex *Exec, st *State, s *Term) (*Term, [][2]int64) {
	fixed := true
	for _, it := range sr.items {
		if it.min != it.max {
			fixed = false
		}
	}
	slen := App("slen", SInt, s)
	if fixed {
		pos := int64(0)
		conj := []*Term{}
		ext := make([][2]int64, sr.groups+1)
		for g := range ext {
			ext[g] = [2]int64{-1, -1}
		}
		for _, it := range sr.items {
			if it.group > 0 && ext[it.group][0] < 0 {
				ext[it.group][0] = pos
			}
			for k := 0; k < it.min; k++ {
				c := App("sat", SInt, s, IntLit(pos))
				if it.class == "digit" {
					conj = append(conj, isDigitT(c))
				} else {
					conj = append(conj, Eq(c, IntLit(int64(it.lit))))
				}
				pos++
			}
			if it.group > 0 {
				ext[it.group][1] = pos
			}
		}
		ext[0] = [2]int64{0, pos}
		return And(append([]*Term{Eq(slen, IntLit(pos))}, conj...)...), ext
	}
	// single class item covering the whole string
	if len(sr.items) == 1 && sr.items[0].class == "digit" {
		it := sr.items[0]
		conj := []*Term{Ge(slen, IntLit(int64(it.min)))}
		if it.max >= 0 {
			conj = append(conj, Le(slen, IntLit(int64(it.max))))
			for k := 0; k < it.max; k++ {
				conj = append(conj, Implies(Lt(IntLit(int64(k)), slen), isDigitT(App("sat", SInt, s, IntLit(int64(k))))))
			}
		} else {
			k := Var("k!re", SInt)
			conj = append(conj, Forall([]*Term{k}, Implies(And(Le(IntLit(0), k), Lt(k, slen)), isDigitT(App("sat", SInt, s, k)))))
		}
		return And(conj...), nil
	}
	return nil, nil
}

func modelFindStringSubmatch(ex *Exec, st *State, instr ssa.Instruction, args []Value) Value {
	pat := ex.regexpPattern(st, args[0], instr)
	s := args[1].(*Term)
	strT := types.Typ[types.String]
	mkResult := func(parts []*Term) Value {
		ref := ex.allocRow(st, strT)
		h := st.heap("H.str", SHStr)
		row := Select(h, ref)
		for i, p := range parts {
			row = Store(row, IntLit(int64(i)), p)
		}
		st.heaps["H.str"] = Store(h, ref, row)
		n := IntLit(int64(len(parts)))
		return &VSlice{Ref: ref, Off: IntLit(0), Len: n, Cap: n, Elem: strT}
	}
	nilSlice := &VSlice{Ref: IntLit(0), Off: IntLit(0), Len: IntLit(0), Cap: IntLit(0), Elem: strT}
	if c, ok := ex.strLitContent(s); ok {
		m := regexp.MustCompile(pat).FindStringSubmatch(c)
		if m == nil {
			return nilSlice
		}
		var parts []*Term
		for _, x := range m {
			parts = append(parts, ex.strLit(x))
		}
		return mkResult(parts)
	}
	sr := compileSimpleRegexp(pat)
	if sr != nil {
		cond, ext := sr.constraints(ex, st, s)
		if cond != nil && ext != nil {
			if !ex.decide(st, cond) {
				return nilSlice
			}
			parts := []*Term{s}
			for g := 1; g < len(ext); g++ {
				parts = append(parts, ex.strSub(st, s, IntLit(ext[g][0]), IntLit(ext[g][1])))
			}
			return mkResult(parts)
		}
	}
	ex.cur.libCalls["regexp pattern "+pat+" on a symbolic string (no contract: arbitrary result)"] = true
	// arbitrary: nil or a slice of arbitrary strings of the right count
	if !ex.decide(st, ex.fresh("rematch", SBool)) {
		return nilSlice
	}
	ng := regexp.MustCompile(pat).NumSubexp() + 1
	var parts []*Term
	for i := 0; i < ng; i++ {
		parts = append(parts, ex.fresh("regroup", SStr))
	}
	return mkResult(parts)
}

func parseUintReal(s string, base, bits int) (uint64, error) { return strconv.ParseUint(s, base, bits) }
