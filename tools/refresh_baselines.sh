#!/bin/sh
# Regenerates everything that is derived from /repo's contracts and function names (run after contracts or the
# code they are attached to were changed ON PURPOSE): pinned contract texts, the positional baselines of variable
# and function names, the property specs, the sweep baseline and the manifest.
cd "$(dirname "$0")/.."
for p in uhppote types messages; do bin/govc pins $p > spec/pins_$p.json; done
bin/govc pins UTO311-L0x > spec/pins_codec.json
bin/govc pins bcd > spec/pins_bcd.json
bin/govc locals > spec/locals_baseline.json
bin/govc locals functions > spec/functions_baseline.json
python3 tools/gen_props.py
GOVC_WRITE_SWEEP_BASELINE=1 ./check C04 > /dev/null
python3 tools/gen_manifest.py
git status --short spec | head
