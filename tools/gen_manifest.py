#!/usr/bin/env python3
"""Writes /verif/MANIFEST.json from the table below (kept in one place so that the claimed
checks and the not_applicable list are always consistent and cover all 18 properties)."""
import json, os, subprocess
HERE = os.path.dirname(os.path.abspath(__file__))
ROOT = os.path.join(HERE, "..")
TECH = "contract-based deductive verification (own VC generator over go/ssa of /repo's working tree, contracts in */contracts_verif.go, obligations discharged by z3 4.8.12 / z3 5.1.0 / cvc5 1.0.3)"
BASE_NOTE = ("trusted: go/ssa lowering (x/tools v0.29.0), the govc VC generator, the SMT solvers; int/int64 are mathematical integers with no-overflow obligations, uint8/16/32 wrap; "
             "assumed library contracts are listed per run in the evidence file (trusted_base)")

claimed = {
 "C01": ("proof", "DESIGN.md section 4 C01",
   "Unbounded deductive proof per operation: each of the 31 controller-addressed API operations is verified with sendto[T] and the reflective codec (Marshal/marshal) executed on their real SSA bodies for the concrete request struct; the postcondition `wire` fixes all 64 request bytes as a function of the arguments (protocol table in tools/gen_op_contracts.py), `once` that exactly one request reaches the driver. Field encoders (Date, DateTime, HHmm, PIN, SerialNumber) and bcd.Encode are verified against their own functional contracts for all values.",
   BASE_NOTE + "; reflect model for concrete message structs; driver interface contract assumed for the transport; GetDevices is decided under C11"),
 "C02": ("proof", "DESIGN.md section 4 C02",
   "Unbounded deductive proof per operation: postcondition `result` states every returned field as a function of the 60 symbolic payload bytes of the reply, with the sentinels of the statement; `accept` states the domain conditions (boolean bytes, event type 0xff, echoed card / profile id) under which a reply may be turned into a result, and `complete` that a reply which meets them is never turned into an error (so a 'not found' sentinel reply comes back as no value, not as a failure). The nine wire decoders of package types and bcd.Decode are verified against contracts under which an out-of-domain byte is an error or the zero value.",
   BASE_NOTE + "; time.ParseInLocation model (spec/time.spec) for the date decoders; some result fields (dates inside cards/profiles/events) are covered through the decoder contracts, see evidence not_decided"),
 "C03": ("proof", "DESIGN.md section 4 C03",
   "Unbounded deductive proof: postcondition `accept` of every operation (a result is reported only for a 64-byte reply with protocol id 0x17 (0x19 for function 0x20), the operation's function code and serial S), the broadcast acceptance callback udpBroadcastTo$1 accepts exactly (len 64, serial S), and the reply clauses of the routing closure.",
   BASE_NOTE + "; the timing clause 'keeps waiting until its deadline' is not decidable by contracts (listed under not_decided)"),
 "C06": ("proof", "DESIGN.md section 4 C06",
   "Unbounded deductive proof: postcondition `route` of every operation and of the routing closure sendto$1: exactly one driver call, SendUDP/SendTCP to the configured address:port when it is usable, BroadcastTo the configured broadcast address otherwise (255.255.255.255:60000 by default).",
   BASE_NOTE + "; net/netip model; IP-level fan-out is outside function contracts"),
 "C07": ("proof", "DESIGN.md section 4 C07",
   "Unbounded deductive proof: for every operation `reject` (INVALID arguments => error and the ghost transport trace unchanged) and `once` (every other argument tuple sends exactly one request); isWiegand26 and isCardNumberValid against the arithmetic Wiegand-26 predicate for all 2^32 card numbers and all format lists (loop invariant); the HH:mm order used by the time-profile validation (HHmm.Before / After) against the lexicographic order, 24:00 included.",
   BASE_NOTE + "; fmt.Sprintf(%08v)/strconv.Atoi digit model"),
 "C09": ("other", "DESIGN.md section 4 C09",
   "Partially decided (level 'other'): deductive proof of the socket / deadline / lock typestate of all four driver send paths - ut0311.BroadcastTo, SendUDP, SendTCP and the discovery broadcast ut0311.Broadcast - against assumed contracts of package net on a ghost socket state: exactly one socket per call, closed on every return path; every blocking write/read happens under a deadline (discovery: the write under a write deadline, the collector's reads bounded by the Close on return) and the dial carries one; the process-wide lock is taken iff the bind port is fixed and released on every path; the receive loops exit only with an accepted datagram or a read error and have a variant (a round that neither returns nor consumes a datagram fails it); discovery starts exactly one collector goroutine (none for set-address) and holds the caller for exactly the configured timeout (ghost clock: time.Sleep or a receive from time.After); the collector is a goroutine body that has to end with its call: loop variant, and no channel operation that can block for ever (obligations of class `block`). The wall-clock bound as such, goroutine counts over a history of calls and ut0311.Listen's goroutines are NOT decided.",
   BASE_NOTE + "; net, time.Sleep and sync.Mutex calls are assumed events on a ghost typestate; finitely many datagrams reach a socket before its deadline or close (variant sock.pending); codec.Dump trusted"),
 "C10": ("other", "DESIGN.md section 4 C10",
   "Partially decided (level 'other'): deductive proof per datagram and per event - the receive handler turns every byte string into exactly one of (a) one freshly decoded event sent on the pipe, only for a 64-byte datagram with protocol id 0x17/0x19, function code 0x20, non-zero serial and in-domain fields, every event field being the protocol decoding of the datagram, or (b) exactly one OnError callback; the dispatch goroutine calls OnEvent exactly once per received event with a status whose every field is the mapping of that event (event present iff index != 0, system date and time combined with their civil fields, door maps allocated per event) and never OnError/OnConnected; listen() calls OnConnected exactly once after the driver's Listen succeeded. The driver's Listen refuses port 0, opens exactly one UDP socket bound to the listen address and starts exactly two goroutines (nothing on failure); the stop protocol's events are decided per function: listen() closes the signal channel exactly once, the signal waiter closes the socket exactly once, the receive loop (one buffer able to hold an over-length datagram, one callback per datagram) closes `done` exactly once when it ends. Exactly-once / in-order delivery ACROSS goroutines, the ORDER of shutdown events between goroutines and immediate re-binding are NOT decided (interleavings).",
   BASE_NOTE + "; Listener callbacks, channel sends, receives and closes are ghost events; driver.Listen is an interface contract at the API level, its implementation is verified against its own contract"),
 "C11": ("other", "DESIGN.md section 4 C11",
   "Partially decided (level 'other'): GetDevices verified with broadcast() and the codec executed in place (loop invariants in both loops): exactly one discovery request with the protocol bytes goes to driver.Broadcast at the configured broadcast address (255.255.255.255:60000 by default); malformed datagrams never make the call fail (it fails only when the driver fails); EXACTNESS over the datagrams logged in arrival order: the result has exactly one entry for each datagram that decodes as a get-device reply (disc.count, defined by recursion) - nothing for a malformed one, and a malformed one hides nothing after it - and entry k carries the serial number, firmware version, date, IP address, subnet mask, gateway and MAC address decoded from the k-th such datagram (disc.sel): its own reply, in arrival order, duplicates included; every entry's address is completed with the broadcast port (60000 by default) and carries the name of the matching configured controller; no panic (type assertion included); the reply collector of ut0311.Broadcast keeps every datagram in a buffer of its own (pairwise distinct).",
   BASE_NOTE + "; driver.Broadcast assumed at the API level: what it returns is logged as the datagrams of the call and is allocated memory (the collector goroutine body and ut0311.Broadcast are verified on their own, C09; their interleaving with the caller is not)"),
 "C12": ("proof", "DESIGN.md section 4 C12",
   "Unbounded deductive proof: bcd.Encode and bcd.Decode are verified against full functional contracts with loop invariants (all strings over the full byte alphabet incl. multi-byte UTF-8, all byte slices), and the two round-trip statements are lemma functions verified modularly against those contracts.",
   BASE_NOTE + "; UTF-8 range step, strings.Builder ghost model, fmt.Errorf != nil"),
 "C16": ("proof", "DESIGN.md section 4 C16",
   "Unbounded deductive proof: Date/HHmm Before/After/Equals and DateTime.Before against lexicographic / whole-second postconditions; trichotomy, transitivity and mirror-image are lemma functions verified from those contracts only.",
   BASE_NOTE + "; time model (civil fields of an instant in a location, uninterpreted zone offset)"),

 "C04": ("proof", "DESIGN.md section 4 C04",
   "Unbounded deductive proof of the absence of run-time panics: every index, slice-bounds, nil-dereference, nil-map write, type-assertion, division, explicit-panic and library-precondition obligation of (a) the 31 API operations with sendto and the reflective codec inlined (reply bytes and their length symbolic), (b) Unmarshal of an arbitrary byte string into each of the 65 message types (lemmaDecode<T>), (c) every other source function of the five packages in a zero-annotation sweep (String/MarshalJSON methods included) - the dispatchers, GetDevices, the driver's socket methods and the JSON decoders of Weekdays / Segments (nil target maps) included - except the functions listed with reasons under sweep_not_covered in the evidence (the reflective codec on a statically unknown type - it is executed in place for every concrete type -, a few string tables of request-only enums). New code: see DESIGN.md section 4 C04 (sweep baseline).",
   BASE_NOTE + "; a method is called on a non-nil receiver; library functions do not panic when their assumed preconditions hold; Must* constructors panic by design"),
 "C05": ("proof", "DESIGN.md section 4 C05",
   "Unbounded deductive proof per message type: for each of the 65 message structs T the lemma function lemmaRoundTrip<T>(v) = Unmarshal(Marshal(v)) is verified with the reflective codec executed on its real body - decoding succeeds for every in-domain v and returns its integer, boolean, PIN, HH:mm, IPv4, address:port, MAC and version fields unchanged, date/time fields are written and read at the same offset in the same BCD form; lemmaDecode<T> shows that only 64 bytes with T's protocol id and function code are accepted and that every decoded field is a function of the bytes at its own offset only (so the value does not depend on bytes that belong to no field); the two dispatchers UnmarshalRequest / UnmarshalResponse are verified by a case split over the literal keys of their tables, the decoder call of each case summarised by the contract of lemmaDecode<T> (checked to be literally that call on a zero T): 64 bytes, protocol id 0x17, the type whose own MsgType tag carries the function code and only that type, unknown codes rejected; the per-type round trips of Date, DateTime, HHmm, PIN, SerialNumber, Version are lemma functions over the codec contracts with an uninterpreted zone offset (every time zone; zero values included).",
   BASE_NOTE + "; independence from non-field bytes: lemmaDecode<T>#fields gives every decoded field as a function of the bytes at its own offset"),
 "C13": ("proof", "DESIGN.md section 4 C13",
   "Unbounded deductive proof relative to a model of package time in which the zone offset is an uninterpreted function (all zones at once): every date producer (ToDate, ParseDate, the wire decoders of Date, DateTime, SystemDate, SystemTime) has a `civil` postcondition - if the civil day / date-time exists in the process-local zone the result has exactly the requested fields - and the encoders write exactly the civil fields. On the current tree the date clauses are provable only under the additional hypothesis that local midnight exists on that day: the missing-midnight case is a genuine defect recorded as four known findings (known_findings.txt), each replayed on the real code.",
   BASE_NOTE + "; the time model (spec/time.spec: time.Date algorithm abs = C - off(C - off(C)), documented guarantee when the civil time exists, calendar bijection) is assumed and conformance-tested (bin/timeconf, thorough tier); the closures that recombine the system date and time of a status (GetStatus$1, Listen$1) are under contract"),
 "C14": ("other", "DESIGN.md section 4 C14",
   "Partially decided (level 'other'): deductive proof for the leaf types whose parser is repository code over a string - HH:mm (String / HHmmFromString / JSON: accepted exactly in 00:00..24:00 with minutes <= 59, everything else of that form rejected, decode(encode(v)) == v), door control state JSON (exactly the three names), Date JSON and text (blank <-> zero, impossible dates rejected, civil value kept when the day exists in the zone), DateTime JSON (decode(encode(v)) is the same instant to the second for every v held in the process zone or in UTC, in every process zone - over an assumed model of zone designations in time.Format / time.Parse, bounded conformance test in the thorough tier), Weekdays and Segments JSON decoding into a nil map (no panic, a map is created), and the text forms of the four address types (with C15). Card, TimeProfile, Task (values), Version, MacAddress, TaskType by name, CardFormat and the accept side of PIN are NOT decided by contracts: their decoders delegate to encoding/json's reflective decoding, fmt.Sscanf, net.ParseMAC, regular-expression rewriting or variable-width decimal text. For these a BOUNDED stand-in runs in both tiers on the real functions (evidence: bounded_checks, driver types_text:composite - all 13 task types, all 65536 versions, all 128 weekday sets, a grid of Task / TimeProfile / Card documents); it is labelled bounded and not counted as proved.",
   BASE_NOTE + "; encoding/json on strings is an abstract quoting; zone designations: spec/time.spec; two known findings (dates whose local midnight does not exist, same defect as C13); two defects fixed (DateTime JSON in zones with numeric designations, nil-map decoders)"),
 "C15": ("proof", "DESIGN.md section 4 C15",
   "Unbounded deductive proof over abstract strings: the four parsers are verified against postconditions stated with the grammar predicates isQuadPort / isQuad / hasQuad (accept with exactly that address and port under the role's port rule, default ports 0 / 60000 / 60000 / mandatory, reject when the rule is violated, reject strings without a dotted quad); Parse(String(a)) == a for accepted addresses is a lemma function per role verified from the parser contracts.",
   BASE_NOTE + "; assumed: what the two unanchored regular expressions and netip.ParseAddrPort/ParseAddr do on strings of the exact dotted-quad[:port] form and on strings without a dotted quad (axioms in spec/addr.spec); strings with text around a dotted quad are not decided"),
 "C17": ("proof", "DESIGN.md section 4 C17",
   "Unbounded deductive proof on a heap model with allocation freshness: frame obligations of every API operation (no write to memory that existed at entry), Device.Clone / Card.Clone (equal value, fresh slices/maps), NewUHPPOTE (every device stored as a clone in a fresh map), and `noalias` clauses: decoded IPv4 / MAC slices share no memory with the message buffer (decode lemmas of the message types and of the C18 layout family); result maps of GetCard*/GetTimeProfile are fresh.",
   BASE_NOTE + "; DeviceList: every listed device is a clone (map iteration modelled with an invariant)"),
 "C18": ("other", "DESIGN.md section 4 C18",
   "Deductive proof per layout over a FINITE FAMILY of layouts (bounded in the layout quantifier, unbounded in the field values): for 9 message layouts that are not shipped messages and together cover every supported field kind, fields ending on byte 63, pointer variants, one level of embedding and decimal/hex/upper-case value tags, Unmarshal(Marshal(v)) is verified with the reflective codec executed on its real body - exact bytes at each offset and zero elsewhere, decode(encode(v)) == v, tags emitted and enforced, no shared memory with the buffer, no panic. The generic statement for all layouts of the tag grammar is not discharged (reflection on a statically unknown type is outside the engine's model); that is why the level is 'other', not 'proof'.",
   BASE_NOTE + "; bounded: the family of layouts in encoding/UTO311-L0x/lemmas_verif.go"),
}
not_applicable = {
 "C08": "quantifies over schedules (data races, crossed replies between concurrent calls); sequential function contracts have no notion of interleaving or happens-before, see DESIGN.md section 4 C08",
}
pending = {
 "C04": "check not built yet; planned at proof level (no-panic obligations)",
 "C05": "check not built yet; planned at proof level",
 "C09": "check not built yet; only the socket/deadline/lock typestate clauses are in reach",
 "C10": "check not built yet; only per-datagram clauses are in reach",
 "C11": "pending",
 "C13": "check not built yet; planned at proof level",
 "C14": "check not built yet; leaf types only are in reach",
 "C15": "check not built yet; planned at proof level",
 "C17": "check not built yet; planned at proof level",
 "C18": "check not built yet; planned at proof level",
}
for k in claimed:
    pending.pop(k, None)
    not_applicable.pop(k, None)

hooks = subprocess.run(["git", "-C", "/repo", "log", "--format=%h %s"], capture_output=True, text=True).stdout.strip().split("\n")
hook_commits = [l.split()[0] for l in hooks if l.split(" ", 1)[1].startswith("verif:")]

m = {
 "version": 1,
 "setup_cmd": "cd /verif/engine && GOFLAGS=-mod=vendor GOPROXY=off GOSUMDB=off GOTOOLCHAIN=local go build -o /verif/bin/govc ./cmd/govc && GOFLAGS=-mod=vendor GOPROXY=off GOSUMDB=off GOTOOLCHAIN=local go build -o /verif/bin/timeconf ./cmd/timeconf",
 "hooks": {
  "guard": "verif",
  "enable": "the engine loads /repo with build tag verif (go/packages BuildFlags -tags=verif); guarded files: */contracts_verif.go (comment-only //@ contracts, read as text) and */lemmas_verif.go (lemma functions verified against contracts only)",
  "baseline_off_cmd": "cd /repo && go test -vet=off -count=1 ./...",
  "source_commits": list(reversed(hook_commits)),
  "add_only": True,
 },
 "engines": [{"name": "govc", "path": "/verif/engine", "serves_properties": sorted(claimed),
   "kind_free_text": "self-written VC generator: weakest-precondition style symbolic execution of go/ssa (NaiveForm) of /repo's working tree against //@ contracts, obligations discharged by z3 4.8.12 / z3 5.1.0 / cvc5 1.0.3"}],
 "checks": [],
 "not_applicable": [],
 "notes": "Every check rebuilds its verification conditions from /repo's current working tree. known_findings.txt lists repaired defects (fixed:) and recorded ones (finding:).",
}
for pid in sorted(claimed):
    cat, ref, text, note = claimed[pid]
    m["checks"].append({
      "property_id": pid, "quick_cmd": f"./check {pid} quick", "thorough_cmd": f"./check {pid} thorough",
      "evidence_file": f"/verif/evidence/{pid}.json", "replay_cmd_template": "cat {path}", "engine": "govc",
      "level_claimed": {"category": cat, "text": text, "design_ref": ref}, "level_note": note, "technique": TECH})
for pid in sorted(list(not_applicable) + list(pending)):
    m["not_applicable"].append({"property_id": pid, "reason": not_applicable.get(pid) or pending[pid]})
json.dump(m, open(os.path.join(ROOT, "MANIFEST.json"), "w"), indent=1)
print("claimed:", sorted(claimed), "not applicable/pending:", [x["property_id"] for x in m["not_applicable"]])
