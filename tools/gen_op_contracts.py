#!/usr/bin/env python3
"""Generates the operation contracts of package uhppote from the protocol table below.

The table is the independent statement of the UT0311-L0x protocol at the API level (property
C01/C02/C03/C06/C07): for each operation its function code, where each argument goes in the
64-byte request, and how the result is read from the reply. The output is pasted between the
GENERATED markers of /repo/uhppote/contracts_verif.go (comment-only file, build tag verif).

usage: gen_op_contracts.py > /tmp/ops.txt
"""

def op(name, params, serial, results, code, wire, zero_from, accept_extra="", result="", domain="", invalid=None, requires_extra="", note="", noaxioms="time."):
    out = []
    out.append(f"//@ func (*uhppote).{name}")
    out.append(f"//@   params u, {', '.join(params)}")
    out.append(f"//@   returns ({', '.join(results)})")
    out.append(f"//@   requires client: u != nil && u.driver != nil{requires_extra}")
    out.append(f"//@   attr noaxioms = {noaxioms}")
    out.append("//@   attr opaque = bcd.")
    out.append("//@   modifies sent.n, sent.kind, sent.iplen, sent.ipb, sent.port, sent.bytes, recv.n, recv.len, recv.bytes")
    out.append("//@   define N0 = old(sent.n)")
    out.append("//@   define B = sent.bytes[N0]")
    out.append("//@   define R = recv.bytes[old(recv.n)]")
    bad = f"{serial} == 0"
    if invalid:
        bad = f"{serial} == 0 || {invalid}"
        out.append(f"//@   define INVALID = {bad}")
        badname = "INVALID"
    else:
        badname = f"{serial} == 0"
    out.append(f"//@   ensures reject: {badname} ==> err != nil && sent.n == N0 && recv.n == old(recv.n)")
    dom = f" && {domain}" if domain else ""
    out.append(f"//@   ensures once:   !({badname}){dom} ==> sent.n == N0 + 1")
    w = f"wire.header(B, {code}, {serial})"
    if wire:
        w += " && " + wire
    w += f" && wire.zero(B, {zero_from}, 64)"
    out.append(f"//@   ensures wire:   !({badname}){dom} ==> {w}")
    out.append(f"//@   ensures route:  !({badname}){dom} ==> routed(u, {serial}, N0)")
    if code != "0x96":
        acc = f"accepted(N0, {code}, {serial})"
        if accept_extra:
            acc += " && " + accept_extra
        out.append(f"//@   ensures accept: err == nil ==> {acc}")
        # ... and only for these reasons: a reply that is acceptable is never turned into an error
        # (as a hypothesis the quantified wire.bcdok is written out byte by byte)
        import re
        accc = re.sub(r"wire\.bcdok\(R, (\d+), (\d+)\)", lambda m: "(" + " && ".join(f"bcd.ok(R[{k}])" for k in range(int(m.group(1)), int(m.group(1)) + int(m.group(2)))) + ")", acc)
        out.append(f"//@   ensures complete: {accc} ==> err == nil")
        if result:
            out.append(f"//@   ensures result: err == nil ==> {result}")
    return "\n".join(out) + "\n"

MAGIC = lambda off: f"wire.magic(B, {off})"
OKBOOL = "R[8] <= 1"
RESBOOL = "(ok <==> R[8] == 1)"

def dateok(d):
    return f"(({d}.abs == 0 && {d}.ns == 0) || (0 <= time.year({d}.abs, {d}.loc) && time.year({d}.abs, {d}.loc) <= 9999))"

def wdate(off, d):
    return f"wire.date(B, {off}, {d}.abs, {d}.ns, {d}.loc)"

def hhmmok(h):
    return f"0 <= {h}.hours && {h}.hours <= 99 && 0 <= {h}.minutes && {h}.minutes <= 99"

def rdate(off, d):
    return f"wire.rdate(R, {off}, {d}.abs, {d}.ns, {d}.loc)"

def rdt(off, d):
    return f"wire.rdatetime(R, {off}, {d}.abs, {d}.ns, {d}.loc)"

def rhm(off, h):
    # a segment time outside its domain (non-decimal nibble, beyond 24:00, minutes > 59) comes back as 00:00
    return f"(wire.rhhmmOK(R, {off}) ? wire.rhhmm(R, {off}, {h}.hours, {h}.minutes) : ({h}.hours == 0 && {h}.minutes == 0))"

def rip(off, p):
    return f"len({p}) == 16 && " + " && ".join(f"{p}[{12+i}] == R[{off+i}]" for i in range(4))

ops = []
ops.append(op("ActivateKeypads", ["controllerID", "readers"], "controllerID", ["ok", "err"], "0xa4",
    "wire.bool(B, 8, readers[1]) && wire.bool(B, 9, readers[2]) && wire.bool(B, 10, readers[3]) && wire.bool(B, 11, readers[4])", 12, OKBOOL, RESBOOL))
wk = " && ".join(f"wire.bool(B, {16+i}, task.Weekdays[{d}])" for i, d in enumerate([1, 2, 3, 4, 5, 6, 0]))
ops.append(op("AddTask", ["deviceID", "task"], "deviceID", ["ok", "err"], "0xa8",
    f"{wdate(8, 'task.From')} && {wdate(12, 'task.To')} && {wk} && wire.hhmm(B, 23, task.Start.hours, task.Start.minutes) && B[25] == task.Door && B[26] == task.Task % 256 && B[27] == task.Cards",
    28, OKBOOL, RESBOOL, domain=f"{dateok('task.From')} && {dateok('task.To')} && {hhmmok('task.Start')}"))
for name, code in [("ClearTaskList", "0xa6"), ("ClearTimeProfiles", "0x8a"), ("DeleteCards", "0x54"), ("RefreshTaskList", "0xac")]:
    ops.append(op(name, ["deviceID"], "deviceID", ["ok", "err"], code, MAGIC(8), 12, OKBOOL, RESBOOL))
ops.append(op("RestoreDefaultParameters", ["controller"], "controller", ["ok", "err"], "0xc8", MAGIC(8), 12, OKBOOL, RESBOOL))
ops.append(op("DeleteCard", ["deviceID", "cardNumber"], "deviceID", ["ok", "err"], "0x52", "wire.u32(B, 8) == cardNumber", 12, OKBOOL, RESBOOL))
ops.append(op("GetCards", ["deviceID"], "deviceID", ["n", "err"], "0x58", "", 8, "", "n == wire.u32(R, 8)"))
ops.append(op("GetEventIndex", ["deviceID"], "deviceID", ["res", "err"], "0xb4", "", 8, "", "res != nil && res.SerialNumber == deviceID && res.Index == wire.u32(R, 8)"))
ops.append(op("GetTime", ["serialNumber"], "serialNumber", ["res", "err"], "0x32", "", 8, "wire.rdtOK(R, 8)",
    "res != nil && res.SerialNumber == serialNumber && " + rdt(8, "res.DateTime")))
ops.append(op("SetTime", ["serialNumber", "datetime"], "serialNumber", ["res", "err"], "0x30",
    "wire.datetime(B, 8, datetime.abs, datetime.loc)", 15, "wire.rdtOK(R, 8)", "res != nil && res.SerialNumber == serialNumber && " + rdt(8, "res.DateTime"),
    domain="0 <= time.year(datetime.abs, datetime.loc) && time.year(datetime.abs, datetime.loc) <= 9999"))
ops.append(op("OpenDoor", ["deviceID", "door"], "deviceID", ["res", "err"], "0x40", "B[8] == door", 9, OKBOOL,
    "res != nil && res.SerialNumber == deviceID && (res.Succeeded <==> R[8] == 1)"))
ops.append(op("RecordSpecialEvents", ["deviceID", "enable"], "deviceID", ["ok", "err"], "0x8e", "wire.bool(B, 8, enable)", 9, OKBOOL, RESBOOL))
ops.append(op("SetPCControl", ["deviceID", "enable"], "deviceID", ["ok", "err"], "0xa0", MAGIC(8) + " && wire.bool(B, 12, enable)", 13, OKBOOL, RESBOOL))
ops.append(op("SetInterlock", ["controllerID", "interlock"], "controllerID", ["ok", "err"], "0xa2", "B[8] == interlock", 9, OKBOOL, RESBOOL))
ops.append(op("SetEventIndex", ["deviceID", "index"], "deviceID", ["res", "err"], "0xb2", "wire.u32(B, 8) == index && " + MAGIC(12), 16, OKBOOL,
    "res != nil && res.SerialNumber == deviceID && res.Index == index && (res.Changed <==> R[8] == 1)"))
ops.append(op("GetDoorControlState", ["serialNumber", "door"], "serialNumber", ["res", "err"], "0x82", "B[8] == door", 9, "",
    "res != nil && res.SerialNumber == serialNumber && res.Door == R[8] && res.ControlState == R[9] && res.Delay == R[10]"))
ops.append(op("SetDoorControlState", ["serialNumber", "door", "state", "delay"], "serialNumber", ["res", "err"], "0x80",
    "B[8] == door && B[9] == state % 256 && B[10] == delay", 11, "",
    "res != nil && res.SerialNumber == serialNumber && res.Door == R[8] && res.ControlState == R[9] && res.Delay == R[10]"))
pc = lambda i: f"wire.u32(B, {12+4*i}) == ((len(passcodes) > {i} && passcodes[{i}] <= 999999) ? passcodes[{i}] : 0)"
ops.append(op("SetDoorPasscodes", ["controller", "door", "passcodes"], "controller", ["ok", "err"], "0x8c",
    "B[8] == door && B[9] == 0 && B[10] == 0 && B[11] == 0 && " + " && ".join(pc(i) for i in range(4)), 28, OKBOOL, RESBOOL,
    invalid="door < 1 || door > 4"))
ops.append(op("SetListener", ["controller", "address", "interval"], "controller", ["ok", "err"], "0x90",
    "wire.be32(B, 8) == address.ip.bits && wire.u16(B, 12) == address.port && B[14] == interval", 15, OKBOOL, RESBOOL,
    invalid="!((address.ip.kind == 1 && address.ip.bits == 0 && address.port == 0) || (address.ip.kind == 1 && address.port != 0))"))
ip4 = lambda p: f"(len({p}) == 4 || (len({p}) == 16 && {p}[0] == 0 && {p}[1] == 0 && {p}[2] == 0 && {p}[3] == 0 && {p}[4] == 0 && {p}[5] == 0 && {p}[6] == 0 && {p}[7] == 0 && {p}[8] == 0 && {p}[9] == 0 && {p}[10] == 255 && {p}[11] == 255))"
ipb = lambda off, p: " && ".join(f"B[{off+i}] == (len({p}) == 4 ? {p}[{i}] : {p}[{12+i}])" for i in range(4))
ops.append(op("SetAddress", ["serialNumber", "address", "mask", "gateway"], "serialNumber", ["res", "err"], "0x96",
    f"{ipb(8, 'address')} && {ipb(12, 'mask')} && {ipb(16, 'gateway')} && " + MAGIC(20), 24,
    invalid=f"!{ip4('address')} || !{ip4('mask')} || !{ip4('gateway')}"))
ops.append(op("GetListener", ["serialNumber"], "serialNumber", ["addr", "interval", "err"], "0x92", "", 8, "",
    "addr.ip.kind == 1 && addr.ip.bits == wire.be32(R, 8) && addr.port == wire.u16(R, 12) && interval == R[14]"))
ops.append(op("GetEvent", ["deviceID", "index"], "deviceID", ["res", "err"], "0xb0", "wire.u32(B, 8) == index", 12, "R[13] <= 1 && R[12] != 255 && wire.rdtOK(R, 20)",
    "(wire.u32(R, 8) == 0 ==> res == nil) && (wire.u32(R, 8) != 0 ==> res != nil && res.SerialNumber == deviceID && res.Index == wire.u32(R, 8) && "
    "res.Type == R[12] && (res.Granted <==> R[13] == 1) && res.Door == R[14] && res.Direction == R[15] && res.CardNumber == wire.u32(R, 16) && res.Reason == R[27] && " + rdt(20, "res.Timestamp") + ")"))
card = ("res.CardNumber == wire.u32(R, 8) && res.Doors != nil && fresh(res.Doors) && res.Doors[1] == R[20] && res.Doors[2] == R[21] && res.Doors[3] == R[22] && res.Doors[4] == R[23] && "
        "res.PIN == wire.u24(R, 24) && " + rdate(12, "res.From") + " && " + rdate(16, "res.To"))
ops.append(op("GetCardByIndex", ["deviceID", "index"], "deviceID", ["res", "err"], "0x5c", "wire.u32(B, 8) == index", 12, "wire.bcdok(R, 12, 8)",
    f"((wire.u32(R, 8) == 0 || wire.u32(R, 8) == 4294967295) ==> res == nil) && (wire.u32(R, 8) != 0 && wire.u32(R, 8) != 4294967295 ==> res != nil && {card})"))
ops.append(op("GetCardByID", ["deviceID", "cardNumber"], "deviceID", ["res", "err"], "0x5a", "wire.u32(B, 8) == cardNumber", 12,
    "(wire.u32(R, 8) == 0 || wire.u32(R, 8) == cardNumber) && wire.bcdok(R, 12, 8)",
    f"(wire.u32(R, 8) == 0 ==> res == nil) && (wire.u32(R, 8) != 0 ==> res != nil && {card})"))
doors = " && ".join(f"B[{20+i}] == card.Doors[{i+1}]" for i in range(4))
ops.append(op("PutCard", ["deviceID", "card", "formats"], "deviceID", ["ok", "err"], "0x50",
    f"wire.u32(B, 8) == card.CardNumber && {wdate(12, 'card.From')} && {wdate(16, 'card.To')} && {doors} && wire.u24(B, 24) == card.PIN",
    27, OKBOOL, RESBOOL, domain=f"{dateok('card.From')} && {dateok('card.To')}",
    invalid="card.CardNumber == 0 || card.CardNumber == 4294967295 || card.CardNumber == 16777215 || card.PIN > 999999 || "
            "(len(formats) > 0 && !(exists i int :: 0 <= i && i < len(formats) && (formats[i] == 0 || (formats[i] == 1 && uhppote.w26(card.CardNumber)))))"))
ops.append(op("GetTimeProfile", ["deviceID", "profileID"], "deviceID", ["res", "err"], "0x98", "B[8] == profileID", 9,
    "(R[8] == 0 || R[8] == profileID) && wire.bcdok(R, 9, 8) && " + " && ".join(f"R[{17+i}] <= 1" for i in range(7)),
    "(R[8] == 0 ==> res == nil) && (R[8] != 0 ==> res != nil && res.ID == R[8] && res.LinkedProfileID == R[36] && " + rdate(9, "res.From") + " && " + rdate(13, "res.To") + " && res.Weekdays != nil && fresh(res.Weekdays) && res.Segments != nil && fresh(res.Segments) && "
    + " && ".join(f"(res.Weekdays[{d}] <==> R[{17+i}] == 1)" for i, d in enumerate([1, 2, 3, 4, 5, 6, 0])) + " && "
    + " && ".join(f"{rhm(24+4*(k-1), f'res.Segments[{k}].Start')} && {rhm(26+4*(k-1), f'res.Segments[{k}].End')}" for k in (1, 2, 3)) + ")"))
seg = lambda k: f"has(profile.Segments, {k}) && !time.lexLt2(profile.Segments[{k}].End.hours, profile.Segments[{k}].End.minutes, profile.Segments[{k}].Start.hours, profile.Segments[{k}].Start.minutes)"
wkp = " && ".join(f"wire.bool(B, {17+i}, profile.Weekdays[{d}])" for i, d in enumerate([1, 2, 3, 4, 5, 6, 0]))
segw = " && ".join(f"wire.hhmm(B, {24+4*(k-1)}, profile.Segments[{k}].Start.hours, profile.Segments[{k}].Start.minutes) && wire.hhmm(B, {26+4*(k-1)}, profile.Segments[{k}].End.hours, profile.Segments[{k}].End.minutes)" for k in (1, 2, 3))
segok = " && ".join(hhmmok(f"profile.Segments[{k}].{e}") for k in (1, 2, 3) for e in ("Start", "End"))
ops.append(op("SetTimeProfile", ["deviceID", "profile"], "deviceID", ["ok", "err"], "0x88",
    f"B[8] == profile.ID && {wdate(9, 'profile.From')} && {wdate(13, 'profile.To')} && {wkp} && {segw} && B[36] == profile.LinkedProfileID",
    37, OKBOOL, RESBOOL, domain=f"{dateok('profile.From')} && {dateok('profile.To')} && {segok}",
    invalid=f"(profile.From.abs == 0 && profile.From.ns == 0) || (profile.To.abs == 0 && profile.To.ns == 0) || !({seg(1)}) || !({seg(2)}) || !({seg(3)})"))
ops.append(op("GetDevice", ["serialNumber"], "serialNumber", ["res", "err"], "0x94", "", 8, "wire.bcdok(R, 28, 4)",
    "res != nil && res.SerialNumber == serialNumber && res.Version == 256 * R[26] + R[27] && " + rip(8, "res.IpAddress") + " && " + rip(12, "res.SubnetMask") + " && " + rip(16, "res.Gateway") + " && "
    "len(res.MacAddress) == 6 && " + " && ".join(f"res.MacAddress[{i}] == R[{20+i}]" for i in range(6)) + " && " + rdate(28, "res.Date")))
ops.append(op("GetStatus", ["serialNumber"], "serialNumber", ["res", "err"], "0x20", "", 8,
    "R[13] <= 1 && " + " && ".join(f"R[{28+i}] <= 1" for i in range(8)) + " && wire.rdtOK(R, 20) && "
    "(wire.rsysdateOK(R, 51) ==> wire.bcdok(R, 51, 3) && time.validDate(wire.rsysY(R, 51), bcd.val2(R[52]), bcd.val2(R[53]))) && "
    "wire.bcdok(R, 37, 3) && time.validClock(bcd.val2(R[37]), bcd.val2(R[38]), bcd.val2(R[39]))",
    "res != nil && res.SerialNumber == serialNumber && res.SystemError == R[36] && res.SequenceId == wire.u32(R, 40) && res.SpecialInfo == R[48] && res.RelayState == R[49] && res.InputState == R[50] && "
    "(res.DoorState[1] <==> R[28] == 1) && (res.DoorState[2] <==> R[29] == 1) && (res.DoorState[3] <==> R[30] == 1) && (res.DoorState[4] <==> R[31] == 1) && "
    "(res.DoorButton[1] <==> R[32] == 1) && (res.DoorButton[2] <==> R[33] == 1) && (res.DoorButton[3] <==> R[34] == 1) && (res.DoorButton[4] <==> R[35] == 1) && "
    "(wire.u32(R, 8) == 0 ==> res.Event.Index == 0 && res.Event.Type == 0 && res.Event.CardNumber == 0 && res.Event.Timestamp.abs == 0) && "
    "(wire.u32(R, 8) != 0 ==> res.Event.Index == wire.u32(R, 8) && res.Event.Type == R[12] && (res.Event.Granted <==> R[13] == 1) && res.Event.Door == R[14] && res.Event.Direction == R[15] && res.Event.CardNumber == wire.u32(R, 16) && res.Event.Reason == R[27] && " + rdt(20, "res.Event.Timestamp") + ") && "
    # controller system date + time (the recombination for a present date is not decided: the engine cannot bound the
    # year of the decoded system date during symbolic execution, so the Format/Parse models stay opaque - see DESIGN.md)
    "(!wire.rsysdateOK(R, 51) ==> res.SystemDateTime.abs == 0 && res.SystemDateTime.ns == 0) && "
    # a present system date + time: one local date-time with exactly the transmitted civil fields, whenever the three
    # civil times involved (the date at midnight, the time of day on the reference day, the combination) exist in the zone
    "(wire.rsysdateOK(R, 51) && time.dateAbs(time.civil(wire.rsysY(R, 51), bcd.val2(R[52]), bcd.val2(R[53]), 0, 0, 0), time.Local) != 0 && "
    "time.exists(time.civil(wire.rsysY(R, 51), bcd.val2(R[52]), bcd.val2(R[53]), 0, 0, 0), time.Local) && "
    "time.exists(time.civil(0, 1, 1, bcd.val2(R[37]), bcd.val2(R[38]), bcd.val2(R[39])), time.Local) && "
    "time.exists(time.civil(wire.rsysY(R, 51), bcd.val2(R[52]), bcd.val2(R[53]), bcd.val2(R[37]), bcd.val2(R[38]), bcd.val2(R[39])), time.Local) ==> "
    "time.year(res.SystemDateTime.abs, res.SystemDateTime.loc) == wire.rsysY(R, 51) && time.month(res.SystemDateTime.abs, res.SystemDateTime.loc) == bcd.val2(R[52]) && "
    "time.day(res.SystemDateTime.abs, res.SystemDateTime.loc) == bcd.val2(R[53]) && time.hour(res.SystemDateTime.abs, res.SystemDateTime.loc) == bcd.val2(R[37]) && "
    "time.minute(res.SystemDateTime.abs, res.SystemDateTime.loc) == bcd.val2(R[38]) && time.second(res.SystemDateTime.abs, res.SystemDateTime.loc) == bcd.val2(R[39]))",
    noaxioms="time.off,time.decomp,time.cal.range,time.cal.inv2,time.cal.mono,time.exists,time.dayExists,time.civil.def"))

print("// ---- GENERATED by /verif/tools/gen_op_contracts.py: begin ----")
print()
print("\n".join(ops))
print("// ---- GENERATED: end ----")
