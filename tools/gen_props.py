#!/usr/bin/env python3
"""Generates the property specs that are built from the API-operation contracts
(C01, C02, C03, C06, C07) and merges them into /verif/spec/properties.json.
Entries for other properties are kept as they are."""
import json, re, os

HERE = os.path.dirname(os.path.abspath(__file__))
SPEC = os.path.join(HERE, "..", "spec")
props = json.load(open(os.path.join(SPEC, "properties.json")))
pins = json.load(open(os.path.join(SPEC, "pins_uhppote.json")))
OPS = sorted(k[:-len("#contract")] for k in pins if k.startswith("uhppote.(*uhppote).") and k.endswith("#contract") and "ensures wire:" in pins[k] and "$" not in k)
OPRE = r"^uhppote\.\(\*uhppote\)\.[A-Z]\w*#"

WIRE_REPLAY = [
    {"match": "types.(*HHmm)", "driver": "types_wire", "pkg": "types", "case": "hhmm"},
    {"match": "types.(HHmm)", "driver": "types_wire", "pkg": "types", "case": "hhmm"},
    {"match": "types.(*DateTime)", "driver": "types_wire", "pkg": "types", "case": "datetime"},
    {"match": "types.(*Date)", "driver": "types_wire", "pkg": "types", "case": "date"},
    {"match": "types.(Date)", "driver": "types_wire", "pkg": "types", "case": "date"},
    {"match": "types.(", "driver": "types_wire", "pkg": "types", "case": "ints"},
]

def ops_replay(*cases):
    """replay rules for operation-level obligations: obligation label -> case of the uhppote_ops driver"""
    return [{"match": "#ensures:" + label, "driver": "uhppote_ops", "pkg": "uhppote", "case": case} for label, case in cases] + \
           [{"match": "uhppote.sendto$1", "driver": "uhppote_ops", "pkg": "uhppote", "case": "route"}]

def entry(id, **kw):
    e = {"id": id, "level": "proof", "pinned": {}, "not_decided": [], "replay": []}
    e.update(kw)
    return e

COMMON_ASSUME = [
    "driver interface contract (uhppote/contracts_verif.go driver.*): an implementation records exactly one request per call in the ghost trace `sent` and every reply it hands back in `recv` (proved for the ut0311 methods separately where claimed)",
    "reflect model (engine/vc/reflectmodel.go): reflect.Value operations on the concrete message struct types of package messages behave as documented; struct tags are read from go/types on every run",
    "encoding/binary, regexp (the two tag patterns), strconv, fmt.Sprintf/Errorf, time.Format/ParseInLocation models (see trusted_base)",
]

new = []
new.append(entry("C01",
    functions=OPS + ["types.(Date).MarshalUT0311L0x", "types.(DateTime).MarshalUT0311L0x", "types.(HHmm).MarshalUT0311L0x", "types.(PIN).MarshalUT0311L0x",
                     "types.(SerialNumber).MarshalUT0311L0x", "encoding/bcd.Encode"],
    scope=[OPRE + r"ensures:(wire|once)$", OPRE + r"requires:", r"^types\.\(\w+\)\.MarshalUT0311L0x#", r"^encoding/bcd\.Encode#"], replay=ops_replay(("wire", "wire"), ("once", "wire")) + WIRE_REPLAY,
    pinned_file="pins_uhppote.json", pinned_labels=["contract", "macro"],
    assumptions=COMMON_ASSUME,
    not_decided=["GetDevices (discovery broadcast) request bytes: decided under C11's contracts"],
    explanation="Every API operation is verified with sendto[T], codec.Marshal/marshal (the reflective walk) executed on its real SSA body for the concrete request type; the postcondition `wire` states every byte of the 64-byte request from the protocol table (tools/gen_op_contracts.py), `once` that exactly one request is handed to the driver. The bytes are a function of the arguments only: the contract is proved for an arbitrary pre-state (heap, ghost trace, client)."))
new.append(entry("C02",
    functions=OPS + ["types.(*Date).UnmarshalUT0311L0x", "types.(*DateTime).UnmarshalUT0311L0x", "types.(*SystemDate).UnmarshalUT0311L0x", "types.(*SystemTime).UnmarshalUT0311L0x",
                     "types.(*HHmm).UnmarshalUT0311L0x", "types.(*PIN).UnmarshalUT0311L0x", "types.(*SerialNumber).UnmarshalUT0311L0x", "types.(*Version).UnmarshalUT0311L0x",
                     "types.(*MacAddress).UnmarshalUT0311L0x", "encoding/bcd.Decode"],
    scope=[OPRE + r"ensures:(result|accept|complete)$", OPRE + r"requires:", r"^types\.\(\*\w+\)\.UnmarshalUT0311L0x#", r"^encoding/bcd\.Decode#"],
    scope_exclude=[r"#ensures:civil$"], replay=ops_replay(("result", "result"), ("accept", "result"), ("complete", "result")) + WIRE_REPLAY,
    pinned_file="pins_uhppote.json", pinned_labels=["contract", "macro"],
    assumptions=COMMON_ASSUME,
    explanation="The `result` postcondition of every operation states each returned field as a function of the reply bytes R (offset and encoding from the protocol table) and the sentinels; `accept` states the domain conditions under which a reply may be turned into a result at all (boolean bytes 0/1, event type != 0xff, echoed card/profile). The per-type decoders are verified against contracts that make out-of-domain bytes an error or the zero value."))
new.append(entry("C03",
    functions=OPS + ["uhppote.(*uhppote).udpBroadcastTo$1", "uhppote.sendto$1", "uhppote.(*ut0311).BroadcastTo", "uhppote.(*ut0311).SendUDP", "uhppote.(*ut0311).SendTCP"],
    scope=[OPRE + r"ensures:accept$", OPRE + r"requires:", r"^uhppote\.\(\*uhppote\)\.udpBroadcastTo\$1#", r"^uhppote\.sendto\$1.*#ensures:(reply|norep|fail)$", r"^uhppote\.\(\*ut0311\)\.\w+#(ensures:(accepted|noreply|reply|failed)|loop1\.|requires:)"],
    replay=ops_replay(("accept", "accept")),
    pinned_file="pins_uhppote.json", pinned_labels=["contract", "macro"],
    assumptions=COMMON_ASSUME,
    not_decided=["'keeps waiting for S until its deadline' is a statement about time; only its safety half (a rejected datagram is never returned) is decided"],
    explanation="`accept`: whenever an operation returns without error the single reply recorded in `recv` is 64 bytes, starts with 0x17 (or 0x19 with function 0x20), carries the operation's function code and the addressed serial number. The broadcast acceptance callback is verified to accept exactly (len 64, serial S)."))
new.append(entry("C06",
    functions=OPS + ["uhppote.sendto$1", "uhppote.(*ut0311).BroadcastTo", "uhppote.(*ut0311).SendUDP", "uhppote.(*ut0311).SendTCP", "uhppote.(*ut0311).Broadcast", "uhppote.(*uhppote).GetDevices"],
    scope=[OPRE + r"ensures:(route|once)$", OPRE + r"requires:", r"^uhppote\.sendto\$1", r"^uhppote\.\(\*ut0311\)\.\w+#(ensures:(one|bind|dial|sent|once)|loop1\.|requires:)"],
    replay=ops_replay(("route", "route"), ("once", "route")),
    pinned_file="pins_uhppote.json", pinned_labels=["contract", "macro"],
    assumptions=COMMON_ASSUME + ["net.UDPAddrFromAddrPort / TCPAddrFromAddrPort / net.IPv4bcast / IP.To4 models (engine/vc/libnet.go)"],
    not_decided=["IP-level fan-out of a broadcast ('no other endpoint receives anything') is outside function contracts; stated at the level of driver and socket calls"],
    explanation="`route`: the one request of an operation goes to the driver method and endpoint given by the routing macro `routed` (configured usable address: SendUDP, or SendTCP when Protocol == \"tcp\"; otherwise BroadcastTo the configured broadcast address, 255.255.255.255:60000 when none is configured); discovery (GetDevices) goes to the configured broadcast address through driver.Broadcast. At driver level BroadcastTo / SendUDP / SendTCP / Broadcast: one socket bound to the configured bind address, dialled udp4 / tcp4 to the requested endpoint where connected, exactly one write of the request to the requested destination."))
new.append(entry("C07",
    functions=OPS + ["uhppote.isWiegand26", "uhppote.isCardNumberValid", "types.(HHmm).Before", "types.(HHmm).After"],
    scope=[OPRE + r"ensures:(reject|once)$", OPRE + r"requires:", r"^uhppote\.isWiegand26#", r"^uhppote\.isCardNumberValid#", r"^types\.\(HHmm\)\.(Before|After)#ensures:order$"],
    replay=ops_replay(("reject", "reject"), ("once", "reject"), ("w26", "reject"), ("valid", "reject")) + [{"match": "types.(HHmm)", "driver": "types_order", "pkg": "types", "case": "all"}],
    pinned_file="pins_uhppote.json", pinned_labels=["contract", "macro"],
    assumptions=COMMON_ASSUME + ["fmt.Sprintf(\"%08v\", uint32) = decimal digits zero-padded to 8 (digit witnesses); strconv.Atoi of an all-digit string is its decimal value"],
    explanation="`reject`: invalid arguments (the INVALID predicate transcribed from the property statement) give an error with the ghost trace `sent` unchanged; `once`: every other argument tuple (in the encodable domain) sends exactly one request, i.e. a call is rejected only for the listed reasons. Wiegand-26 is the arithmetic predicate card/100000 <= 255 && card%100000 <= 65535."))


SAFETY = r"#(index|slice|nil|nilmap|assert|div|panic|libpre|makeslice|requires)[@:]"
INLINED_ONLY = "reflective codec function: analysed on its real body inlined into every API operation, lemma function and listener handler for the concrete message type (reflect on a statically unknown type is outside the engine's model)"
new.append(entry("C04",
    functions=OPS + ["uhppote.sendto$1", "uhppote.(*uhppote).udpBroadcastTo$1",
                     # closures under contract (the sweep takes named functions only; a closure that is called through its contract
                     # has to be listed, or its own run-time checks are nobody's obligation - seed C04-6)
                     "uhppote.(*uhppote).listen$1", "uhppote.(*uhppote).Listen$1", "uhppote.(*uhppote).Listen$2", "uhppote.(*uhppote).GetStatus$1",
                     "uhppote.(*ut0311).Broadcast$1", "uhppote.(*ut0311).Listen$1", "uhppote.(*ut0311).Listen$2",
                     "encoding/UTO311-L0x.Dump"] + ["messages.lemmaDecode" + t for t in open(os.path.join(SPEC, "message_types.txt")).read().split()],
    replay=[{"match": "types.(ControlState)", "driver": "types_render", "pkg": "types", "case": "all"},
            {"match": "(*Weekdays).UnmarshalJSON", "driver": "types_text", "pkg": "types", "case": "weekdays"},
            {"match": "(*Segments).UnmarshalJSON", "driver": "types_text", "pkg": "types", "case": "segments"},
            {"match": "messages.lemmaDecode", "driver": "messages_decode", "pkg": "messages", "case": "all"},
            {"match": "isten$", "driver": "uhppote_listen", "pkg": "uhppote", "case": "all"}],
    bounded_checks=[{"match": "bounded:types_render:all", "driver": "types_render", "pkg": "types", "case": "all",
                     "functions": ["types.(TaskType).String", "types.(TaskType).MarshalJSON", "types.(Task).String", "types.(CardFormat).String", "types.(*CardFormat).UnmarshalConf"],
                     "bound": "no panic for: the 13 task types and 2 card formats their parsers can produce (String / JSON / Task.String), CardFormat.UnmarshalConf on 8 maps (nil, empty, valid, invalid, other key); "
                              "also ControlState / DoorControlState / Interlock String and JSON for all 256 byte values (these are proved as well)"},
                    {"match": "bounded:uhppote_misc:all", "driver": "uhppote_misc", "pkg": "uhppote", "case": "all",
                     "functions": ["uhppote.(*uhppote).ListenAddrList"],
                     "bound": "no panic and the expected list for a nil client, no listen address, 0.0.0.0:60001 (the host's interfaces) and 192.168.1.100:60001"}],
    sweep=["types", "uhppote", "messages", "encoding/bcd", "encoding/UTO311-L0x"],
    sweep_exclude={
        "encoding/UTO311-L0x.Marshal": INLINED_ONLY, "encoding/UTO311-L0x.marshal": INLINED_ONLY,
        "encoding/UTO311-L0x.Unmarshal": INLINED_ONLY, "encoding/UTO311-L0x.unmarshal": INLINED_ONLY,
        "encoding/UTO311-L0x.UnmarshalAs": INLINED_ONLY, "encoding/UTO311-L0x.UnmarshalArray": INLINED_ONLY,
        "encoding/UTO311-L0x.UnmarshalArrayElement": INLINED_ONLY,
        "uhppote.(*uhppote).broadcast": INLINED_ONLY + " (inlined into GetDevices)",
        "uhppote.(*uhppote).ListenAddrList": "engine limitation (address of a local array element inside an unrolled loop); bounded stand-in uhppote_misc (bounded_checks)",
        "uhppote.(*uhppote).tcpSendTo": "helper verified inlined into sendto$1, which establishes driver != nil and len(request) == 64",
        "uhppote.(*uhppote).udpSendTo": "helper verified inlined into sendto$1",
        "uhppote.(*uhppote).udpBroadcastTo": "helper verified inlined into sendto$1",
        "uhppote.(*uhppote).udpBroadcast": "helper of GetDevices (see there)",
        "types.(HHmm).before": "helper with a documented panic for foreign types: verified inlined into HHmm.Before (C16), whose callers pass time.Time or HHmm",
        "types.(HHmm).after": "as before",
        "types.(TaskType).String": "string table indexed by a request-only enum: values come from the library's own parsers (1..13); not a value any operation returns; bounded stand-in types_render (bounded_checks)",
        "types.(TaskType).MarshalJSON": "as TaskType.String",
        "types.(Task).String": "calls TaskType.String (see there)",
        "types.(CardFormat).String": "string table indexed by a request-only enum (0..1 from the library's parser)",
        "types.(*CardFormat).UnmarshalConf": "map with string keys is outside the engine's map model; bounded stand-in types_render (bounded_checks)",
    },
    scope=[SAFETY],
    assumptions=COMMON_ASSUME + ["a method is called on a non-nil receiver unless its contract says otherwise", "library functions do not panic when their assumed preconditions (libpre obligations) hold",
                                 "Must* constructors panic by design (contract attribute maypanic)"],
    not_decided=["functions listed under sweep_not_covered in the evidence (goroutines, real sockets, reflection on unknown types)"],
    explanation="Absence of run-time panics: every index, slice-bounds, nil-dereference, nil-map write, type-assertion, division, explicit-panic and library-precondition obligation of every source function of the five packages (zero-annotation sweep; thin requires only where callers establish them), with the reply bytes, their length and all arguments symbolic."))


MSGTYPES = open(os.path.join(SPEC, "message_types.txt")).read().split()
new.append(entry("C05",
    functions=["messages.UnmarshalRequest", "messages.UnmarshalResponse"] + ["messages.lemmaRoundTrip" + t for t in MSGTYPES] + ["messages.lemmaDecode" + t for t in MSGTYPES] +
              ["types.lemmaRoundTrip" + t for t in ("Date", "DateTime", "HHmm", "PIN", "SerialNumber", "Version")] +
              ["types.(%s).MarshalUT0311L0x" % t for t in ("Date", "DateTime", "SystemDate", "SystemTime", "HHmm", "PIN", "SerialNumber", "Version", "MacAddress")] +
              ["types.(*%s).UnmarshalUT0311L0x" % t for t in ("Date", "DateTime", "SystemDate", "SystemTime", "HHmm", "PIN", "SerialNumber", "Version", "MacAddress")] +
              ["encoding/bcd.Encode", "encoding/bcd.Decode"],
    scope=[r"^messages\.Unmarshal(Request|Response)#ensures:", r"^messages\.lemma\w+#ensures:", r"^messages\.lemma\w+#requires:", r"^types\.lemmaRoundTrip\w+#", r"^types\.\(\*?\w+\)\.(Unm|M)arshalUT0311L0x#", r"^encoding/bcd\.(En|De)code#"],
    scope_exclude=[r"^types\.\(\*(Date|SystemDate)\)\.UnmarshalUT0311L0x#ensures:civil$"],
    pinned_file="pins_messages.json", pinned_labels=["contract"],
    replay=[{"match": "messages.lemmaDecode", "driver": "messages_decode", "pkg": "messages", "case": "all"}],
    assumptions=COMMON_ASSUME + ["bcd.* and time.* spec functions are opaque in the message-level lemmas; the facts used about them are the spec lemmas bcd.pack.inv, bcd.val2.inv, bcd.zero and time.fields.range, proved from the definitions on every run"],
    not_decided=["date/time fields: the message-level lemma proves that the field is written in its BCD form at its offset and read back from the same offset (wire.date / wire.rdate ...); that reading back yields the same civil value in every time zone is the per-type statement of C13",
                 ],
    explanation="INDEPENDENCE from non-field bytes: lemmaDecode<T> (`fields`) states every field of a successfully decoded T as a function of the bytes at that field's own offset and width (little-endian integers, 0/1 booleans, BCD dates and times through the read-side specs wire.rdate / rdatetime / rhhmm, IPv4, address:port, MAC) - for an ARBITRARY 64-byte input, so the decoded value cannot depend on a byte that belongs to no field. ROUND TRIP: for each of the 65 message structs T (32 requests, 31 replies, Event, EventV6_62) the lemma function lemmaRoundTrip<T>(v) = Unmarshal(Marshal(v)) is verified with the reflective codec executed on its real body: for every in-domain v decoding succeeds and every integer/boolean/PIN/HH:mm/IPv4/address:port/MAC/version field of the result equals the field of v; lemmaDecode<T>(b) shows that an arbitrary byte string is only accepted when it is 64 bytes long and carries T's protocol id and function code."))


new.append(entry("C13", conformance=["timeconf"],
    functions=["types.ToDate", "types.ParseDate", "types.(*Date).UnmarshalUT0311L0x", "types.(Date).MarshalUT0311L0x", "types.(*DateTime).UnmarshalUT0311L0x", "types.(DateTime).MarshalUT0311L0x",
               "types.(*SystemDate).UnmarshalUT0311L0x", "types.(*SystemTime).UnmarshalUT0311L0x", "types.lemmaRoundTripDate", "types.lemmaRoundTripDateTime",
               "uhppote.(*uhppote).GetStatus$1", "uhppote.(*uhppote).Listen$1", "uhppote.(*uhppote).GetStatus"],
    scope=[r"^types\.", r"^uhppote\.\(\*uhppote\)\.(GetStatus|Listen)\$1#", r"^uhppote\.\(\*uhppote\)\.GetStatus#ensures:result$"],
    pinned_file="pins_types.json", pinned_labels=["contract"],
    replay=[{"match": "lemmaRoundTripDateTime", "driver": "types_wire", "pkg": "types", "case": "zones"},
            {"match": "#ensures:civil", "driver": "types_wire", "pkg": "types", "case": "midnight"}] + WIRE_REPLAY,
    assumptions=["model of package time (spec/time.spec): a time.Time is (abs, ns, loc); the zone offset off(loc, u) is an uninterpreted function with |off| < 86400 - this is the quantifier over every IANA zone as the process-local zone; time.Date / ParseInLocation return abs = C - off(C - off(C)) (the library's algorithm) and, when the civil time exists in the zone, exactly the requested fields (documented guarantee); proleptic Gregorian calendar as an axiomatised bijection day number <-> (y, m, d)",
                 "time.Format for the layouts 20060102, 20060102150405, 060102, 150405 yields the two-digit groups of the civil fields"],
    not_decided=["Date.UnmarshalJSON / DateTime JSON forms (C14)"],
    explanation="Every date producer (ToDate, ParseDate, the wire decoders of Date, DateTime, SystemDate, SystemTime) is verified against a `civil` postcondition: whenever the calendar day (the civil date-time) exists in the process-local zone, the result has exactly the requested year, month, day (hour, minute, second); the wire encoders write exactly the civil fields; lemmaRoundTripDate / lemmaRoundTripDateTime compose the two from the contracts alone, for the zero values too. The zone offset function is uninterpreted, so the proof covers every zone."))


LAYOUTS = ["Ints", "Last", "Addrs", "Types", "Dates", "Pointers", "Fixed", "Outer"]
new.append(entry("C18", level="other",
    functions=["encoding/UTO311-L0x.lemmaLayout" + n for n in LAYOUTS] + ["encoding/UTO311-L0x.lemmaDecode" + n for n in ("Fixed", "Outer", "Addrs")] +
              ["types.(%s).MarshalUT0311L0x" % t for t in ("Date", "DateTime", "SystemDate", "SystemTime", "HHmm", "PIN", "SerialNumber", "Version", "MacAddress")] +
              ["types.(*%s).UnmarshalUT0311L0x" % t for t in ("Date", "DateTime", "SystemDate", "SystemTime", "HHmm", "PIN", "SerialNumber", "Version", "MacAddress")] +
              ["encoding/bcd.Encode", "encoding/bcd.Decode"],
    scope=[r"^encoding/UTO311-L0x\.lemma", r"^types\.\(\*?\w+\)\.(Unm|M)arshalUT0311L0x#", r"^encoding/bcd\.(En|De)code#"],
    scope_exclude=[r"^types\.\(\*(Date|SystemDate)\)\.UnmarshalUT0311L0x#ensures:civil$"],
    pinned_file="pins_codec.json", pinned_labels=["contract"],
    replay=[{"match": "Addrs", "driver": "codec_layouts", "pkg": "encoding/UTO311-L0x", "case": "mac"},
            {"match": "Fixed", "driver": "codec_layouts", "pkg": "encoding/UTO311-L0x", "case": "fixed"},
            {"match": "Ints", "driver": "codec_layouts", "pkg": "encoding/UTO311-L0x", "case": "uint16"},
            {"match": "encoding/UTO311-L0x.lemma", "driver": "codec_layouts", "pkg": "encoding/UTO311-L0x", "case": "all"}],
    assumptions=COMMON_ASSUME,
    bounded=["the quantifier over all layouts of the tag grammar is NOT discharged generically (reflection on a statically unknown type is outside the engine's model): it is replaced by a fixed family of 9 layouts (encoding/UTO311-L0x/lemmas_verif.go) that covers every supported field kind, fields ending on byte 63, pointer variants of the nil-tolerant types, one level of embedding and decimal / hexadecimal / upper-case value tags; for each layout of the family the proof is unbounded in the field values"],
    not_decided=["layouts outside the family (other offsets and combinations)"],
    explanation="For each layout of the family the lemma function Unmarshal(Marshal(v)) is verified with the reflective codec executed on its real body: exact bytes at each declared offset and zero elsewhere, decode(encode(v)) == v, function-code and fixed-value tags emitted and enforced, decoded slices share no memory with the buffer or the encoded value, and no run-time panic (all index/slice/nil obligations), for every in-domain value of every field."))


SLICE_TYPES = ["GetDeviceResponse", "SetAddressRequest"]
new.append(entry("C17",
    functions=OPS + ["uhppote.(Device).Clone", "types.(*Card).Clone", "uhppote.NewUHPPOTE", "uhppote.(*uhppote).DeviceList", "types.(*MacAddress).UnmarshalUT0311L0x",
                     "encoding/UTO311-L0x.lemmaDecodeAddrs", "encoding/UTO311-L0x.lemmaLayoutAddrs"] + ["messages.lemmaDecode" + t for t in SLICE_TYPES],
    scope=[OPRE + r"frame[@:]", r"^uhppote\.\(Device\)\.Clone#", r"^types\.\(\*Card\)\.Clone#", r"^uhppote\.NewUHPPOTE#", r"^uhppote\.\(\*uhppote\)\.DeviceList#", r"^types\.\(\*MacAddress\)\.UnmarshalUT0311L0x#ensures",
           r"#ensures:noalias$", OPRE + r"ensures:result$"],
    pinned_file="pins_uhppote.json", pinned_labels=["contract"],
    assumptions=COMMON_ASSUME + ["heap model with allocation freshness: a slice/map allocated during a call has a reference above every reference that existed at entry; references stored in the initial heap point to memory that existed at entry"],
    not_decided=["DeviceList: proved to return a fresh map; that its contents equal the configuration is not stated", "the routing function reads only the client's own map: follows from NewUHPPOTE's `own`/`client` clauses and the frame obligations, not stated as a separate lemma"],
    explanation="Frame obligations of every API operation (no write to memory that existed at entry: card.Doors, profile maps, task maps, readers, IP slices), Device.Clone / Card.Clone return equal values whose slices/maps are fresh, NewUHPPOTE stores a clone of every device in a fresh map of the client, and decoded slices (IPv4, MAC) share no memory with the message buffer (noalias clauses of the decode lemmas; result maps of GetCard*/GetTimeProfile are fresh)."))


ROLES = ["Bind", "Broadcast", "Listen", "Controller"]
new.append(entry("C15",
    functions=["types.Parse%sAddr" % r for r in ROLES] + ["types.lemma%sAddrText" % r for r in ROLES] + ["types.(%sAddr).String" % r for r in ("Bind", "Broadcast", "Listen")],
    scope=[r"^types\.Parse\w+Addr#", r"^types\.lemma\w+AddrText#", r"^types\.\(\w+Addr\)\.String#"],
    pinned_file="pins_types.json", pinned_labels=["contract", "macro"],
    replay=[{"match": "types.", "driver": "types_addr", "pkg": "types", "case": "all"}],
    assumptions=["strings are abstract; the grammar of a.b.c.d[:port] is carried by the predicates addr.isQuadPort / addr.isQuad / addr.hasQuad with the values addr.quadOf / addr.portOf (spec/addr.spec)",
                 "assumed about the two unanchored regular expressions of the parsers: a full address:port string matches the first pattern; a bare dotted quad matches the second but not the first; a string without a dotted quad matches neither (axiom addr.regex); a changed pattern has no model, so nothing can be proved through it",
                 "netip.ParseAddrPort / ParseAddr return exactly the address (and port) of a string in the dotted-quad[:port] form and an arbitrary result otherwise; fmt.Sprintf(\"%v\") of a netip.Addr / AddrPort holding an IPv4 address is its dotted-quad[:port] text"],
    not_decided=["strings that contain a dotted quad but are not exactly of the form a.b.c.d[:port] (text around the quad): the statement only requires the two exact forms to be accepted and quad-free strings to be rejected",
                 "Set / MarshalJSON / UnmarshalJSON of the address types (C14)"],
    explanation="Per role (bind, broadcast, listen, controller): a string of the form a.b.c.d:port is accepted with exactly that address and port iff the port satisfies the role's rule (bind: not 60000; broadcast, controller: not 0; listen: neither 0 nor 60000), a bare a.b.c.d gets the default port (0 / 60000 / 60000; rejected for listen), a string without a dotted quad is rejected; formatting an accepted address and parsing it again returns the same address and port (lemma functions over the parser contracts)."))


new.append(entry("C14", level="other",
    functions=["types.(HHmm).String", "types.HHmmFromString", "types.(HHmm).MarshalJSON", "types.(*HHmm).UnmarshalJSON", "types.(*ControlState).UnmarshalJSON",
               "types.(Date).MarshalJSON", "types.(*Date).UnmarshalJSON", "types.ParseDate",
               "types.lemmaTextHHmm", "types.lemmaJSONHHmm", "types.lemmaJSONControlState", "types.lemmaJSONDate", "types.lemmaJSONDateTime",
               "types.(*Weekdays).UnmarshalJSON", "types.(*Segments).UnmarshalJSON", "types.(*PIN).UnmarshalJSON"] +
              ["types.Parse%sAddr" % r for r in ROLES] + ["types.lemma%sAddrText" % r for r in ROLES] + ["types.lemma%sAddrJSON" % r for r in ROLES] +
              ["types.(%sAddr).String" % r for r in ("Bind", "Broadcast", "Listen")],
    scope=[r"^types\."],
    pinned_file="pins_types.json", pinned_labels=["contract", "macro"],
    bounded_checks=[{"match": "bounded:types_text:composite", "driver": "types_text", "pkg": "types", "case": "composite",
                     "functions": ["types.(*TaskType).UnmarshalJSON", "types.(TaskType).MarshalJSON", "types.(*TaskType).UnmarshalTSV", "types.(*Task).UnmarshalJSON",
                                   "types.(*TimeProfile).UnmarshalJSON", "types.(Card).MarshalJSON", "types.(*Card).UnmarshalJSON", "types.(Version).MarshalJSON", "types.(*Version).UnmarshalJSON",
                                   "types.(MacAddress).MarshalJSON", "types.(*MacAddress).UnmarshalJSON", "types.(Weekdays).MarshalJSON", "types.(*Weekdays).UnmarshalJSON", "types.CardFormatFromString"],
                     "bound": "decode(encode(v)) == v into a fresh zero-valued variable for: all 13 task types (JSON by name and by number 1..13, TSV by name and number; 0, 14 and unknown names rejected), "
                              "all 65536 firmware versions, all 128 weekday sets, 5 MAC addresses, both card formats, 156 Task documents (13 types x 3 dates x 4 weekday sets), 20 TimeProfile documents, "
                              "12 Card documents (PIN 0 / 999999, permissions 0 / 1 / 29 / 254); 4 Task and 2 Card documents outside the domain rejected"}],
    replay=[{"match": "HHmm", "driver": "types_text", "pkg": "types", "case": "hhmm"},
            {"match": "lemmaJSONDateTime", "driver": "types_text", "pkg": "types", "case": "datetime"},
            {"match": "(*Weekdays).UnmarshalJSON", "driver": "types_text", "pkg": "types", "case": "weekdays"},
            {"match": "(*Segments).UnmarshalJSON", "driver": "types_text", "pkg": "types", "case": "segments"},
            {"match": "types.", "driver": "types_text", "pkg": "types", "case": "all"}],
    assumptions=["encoding/json on strings is an abstract quoting (spec/json.spec): json.Marshal of a Go string yields bytes that are a JSON string with that content, json.Unmarshal of such bytes into a *string yields the content; bytes that are not a JSON string give an error or an arbitrary string",
                 "regular expressions of the form ^...$ with fixed-width digit groups are modelled exactly; strconv.Atoi of an all-digit string is its value; fmt.Sprintf(%02d:%02d) and time.Format(2006-01-02) yield the digit groups; time model as for C13",
                 "zone designations (layout element MST of time.Format / time.Parse; spec/time.spec): every designation Format writes is 'UTC', an alphabetic abbreviation or sign+hours (both accepted by the layout MST) or sign+hours+minutes such as +0330 (rejected by MST, accepted by -0700); the abbreviation in force at an instant, looked up at that instant's civil time, yields the offset in force (Go documents this as imperfect in the repeated hour of a zone that uses one abbreviation for both offsets); a numeric designation states the offset in force. Bounded conformance: replay driver types_text/datetime, 33 zones x every hour of 3 years, thorough tier"],
    bounded=["bounded stand-in (bounded_checks in the evidence, driver types_text:composite, run on the real functions in every tier; NOT counted as proved): JSON round trip into a zero-valued variable of task type "
             "(all 13 values, by name and number, JSON and TSV), firmware version (all 65536), weekdays (all 128 sets), MAC address, card format, and of Task / TimeProfile / Card documents over a small grid of in-domain values"],
    not_decided=["by contracts (a bounded stand-in runs instead, see bounded_parts): Card, TimeProfile, Task (their UnmarshalJSON delegates to encoding/json's reflective struct/map decoding, which has no contract in the engine); for Weekdays and Segments only 'decodes into a nil map without panicking and leaves a map' is decided, not the value",
                 "DateTime JSON for values held in a zone other than the process zone or UTC (their abbreviation means nothing to the decoding process: the instant is not kept - by design of the format), and the reject side of DateTime JSON; Version (fmt.Sscanf), MacAddress (net.ParseMAC), TaskType by name and CardFormat (case-folding regular-expression rewriting), the accept side of PIN JSON (variable-width decimal text; the reject side - more than six characters, a non-digit - and the blank PIN are decided), SystemTime text form",
                 "the reject side of the address types' JSON forms beyond what the parsers reject (C15); their round trip IS decided (lemma<Role>AddrJSON, with fmt's %v of an address value dispatched to its String method, which is under contract)"],
    explanation="Decided for the leaf types whose parser is repository code over a string: HH:mm (String/HHmmFromString and JSON: accepted exactly for dd:dd with hours <= 24, minutes <= 59, not 24:mm with mm != 0; everything else of that JSON-string form rejected; decode(encode(v)) == v), door control state JSON (exactly the three names; anything else rejected), Date JSON and text (blank <-> zero value, impossible dates rejected, civil value kept whenever the day exists in the zone), DateTime JSON (decode(encode(v)) is the same instant, to the second, for every v held in the process zone or in UTC, in every process zone - under the assumed model of zone designations), and the four address types' text forms. Level 'other': the property lists more types than contracts can reach."))


new.append(entry("C09", level="other",
    functions=["uhppote.(*ut0311).BroadcastTo", "uhppote.(*ut0311).SendUDP", "uhppote.(*ut0311).SendTCP", "uhppote.(*ut0311).Broadcast", "uhppote.(*ut0311).Broadcast$1", "uhppote.(*uhppote).udpBroadcastTo$1"],
    scope=[r"^uhppote\.\(\*ut0311\)\.", r"^uhppote\.\(\*uhppote\)\.udpBroadcastTo\$1#"],
    pinned_file="pins_uhppote.json", pinned_labels=["contract", "macro"],
    assumptions=["assumed contracts of package net and sync.Mutex as events on a ghost socket typestate (spec/net.spec, spec/lib/net.contracts, spec/lib/sync.contracts): what the kernel does on a deadline, a dial or a close is outside",
                 "codec.Dump (debug hex dump) is a trusted contract: returns a string, does not panic",
                 "the acceptance callback handed to BroadcastTo is a pure predicate of the datagram",
                 "termination of the receive loops uses the ghost variant sock.pending (assumed contract of the read calls): only finitely many datagrams reach a socket before its deadline or its close, a successful read consumes one, a failed read none",
                 "time.Sleep is an event on a ghost clock (spec/lib/time.contracts); a read without a deadline on a socket that the caller closes on return is taken to fail once the socket is closed"],
    not_decided=["the wall-clock bound itself ('returns within the configured timeout plus scheduling slack'): a statement about time, not about calls - decided instead: every blocking call is under a deadline or bounded by the Close on return, every receive loop has a variant, discovery sleeps for exactly the configured timeout",
                 "'no more goroutines than before' as a count over a history of calls; decided instead per call: at most one goroutine is started, its body contains no operation that can block for ever (channel send/receive, select: obligations of class `block`) and its loop has a variant",
                 "the two goroutines of ut0311.Listen (they end when the caller closes the listener, not with a call)"],
    explanation="Decided clauses, as socket/lock typestate of the three sequential driver methods BroadcastTo, SendUDP, SendTCP: exactly one socket is opened per call (none on an early failure) and it is closed on every return path (`closed`); every blocking write and read happens while a deadline is set on the socket, and the dial is given a deadline (`guarded`, `dial`); the process-wide send lock is taken iff the bind port is non-zero and released on every path (`lock`); the only exits of the receive loop are an accepted datagram or a read error (`accepted`, loop invariant), i.e. the call never gives up early on its own - the acceptance callback of the broadcast path accepts exactly the 64-byte datagrams that carry the serial number asked for, so a stray reply is skipped, not returned - and the loop ends (`decreases sock.pending`: a round that neither returns nor consumes a datagram fails the variant). Discovery (ut0311.Broadcast): the same socket/lock typestate, the write under a write deadline, exactly one reply collector started (none for set-address), the caller held by time.Sleep for exactly the configured timeout (`waits`), the socket closed on return - which is what ends the collector; the collector (goroutine body Broadcast$1, attribute `goroutine`) has a loop variant and no channel operation that could block for ever. Level 'other': the wall-clock and goroutine-count clauses of the property cannot be expressed as function contracts."))


new.append(entry("C10", level="other",
    functions=["uhppote.(*uhppote).listen$1", "uhppote.(*uhppote).listen", "uhppote.(*uhppote).Listen$1", "uhppote.(*uhppote).Listen$2", "uhppote.(*ut0311).Listen", "uhppote.(*ut0311).Listen$1", "uhppote.(*ut0311).Listen$2", "messages.lemmaDecodeEvent", "messages.lemmaDecodeEventV6_62", "messages.lemmaDecodeGetStatusResponse"],
    replay=[{"match": "uhppote).listen", "driver": "uhppote_listen", "pkg": "uhppote", "case": "all"}, {"match": "uhppote).Listen$", "driver": "uhppote_listen", "pkg": "uhppote", "case": "all"}],
    scope=[r"^uhppote\.\(\*uhppote\)\.listen", r"^uhppote\.\(\*uhppote\)\.Listen\$[12]#", r"^uhppote\.\(\*ut0311\)\.Listen(\$[12])?#", r"^messages\.lemmaDecode(Event|EventV6_62|GetStatusResponse)#"],
    pinned_file="pins_uhppote.json", pinned_labels=["contract", "macro"],
    assumptions=COMMON_ASSUME + ["Listener callbacks are counted by ghost counters (interface contracts Listener.OnError / OnEvent / OnConnected); a channel send is a ghost event of the function (chansends / chansent)",
                                 "driver.Listen starts the receive loop and returns (interface contract without obligations); its implementation ut0311.Listen is verified against its own contract",
                                 "closing a channel is a ghost event of the function (chancloses); socket events as for C09"],
    not_decided=["exactly-once / in-order delivery ACROSS the two goroutines and the unbuffered channel, the ORDER of shutdown events between goroutines, re-binding immediately: statements about interleavings. Decided instead, per function: the stop protocol's events - listen() closes the signal channel exactly once and only after OnConnected; the signal waiter closes the socket exactly once; the receive loop closes `done` exactly once when it ends",
                 "that a delivered status 'does not change afterwards' is decided as: the status handed to OnEvent is a variable created anew for every event (newvar: its allocation site lies inside the dispatch loop) and its door maps are allocated per event (fresh) - the library keeps no reference to either; what the listener does with them is the listener's business"],
    explanation="Decided per datagram: the receive handler (closure listen$1) produces for EVERY byte string exactly one of - one send of a freshly decoded event on the pipe, and then the datagram was 64 bytes, protocol id 0x17 or 0x19, function code 0x20, non-zero serial number, boolean bytes 0/1, and every field of the event is the protocol decoding of the datagram - or exactly one OnError callback and no send; it never calls OnEvent/OnConnected. the dispatch goroutine (closure Listen$2) calls OnEvent exactly once per event received from the pipe, with a status whose every field is the mapping of that event (precondition of the Listener.OnEvent contract, checked at the single call site; event present iff index != 0; system date and time combined by the verified closure Listen$1) and never calls OnError/OnConnected; listen() calls OnConnected exactly once, after driver.Listen returned nil, and returns nil; on a driver error it returns the error without OnConnected. The driver's Listen (ut0311.Listen) refuses port 0, opens exactly one UDP socket bound to the listen address and starts exactly two goroutines, nothing on failure; the signal waiter closes that socket exactly once; the receive loop reads into one buffer that can hold an over-length datagram, hands every datagram read without error to the handler and closes `done` exactly once when it ends. Level 'other': the cross-goroutine clauses cannot be expressed as function contracts."))


new.append(entry("C11", level="other",
    functions=["uhppote.(*uhppote).GetDevices", "uhppote.(*ut0311).Broadcast$1", "messages.lemmaDecodeGetDeviceResponse", "messages.lemmaRoundTripGetDeviceRequest"],
    scope=[r"^uhppote\.\(\*uhppote\)\.GetDevices#", r"^uhppote\.\(\*ut0311\)\.Broadcast\$1#", r"^messages\.lemma(DecodeGetDeviceResponse|RoundTripGetDeviceRequest)#"],
    pinned_file="pins_uhppote.json", pinned_labels=["contract", "macro"],
    assumptions=COMMON_ASSUME + ["driver.Broadcast (interface contract): one discovery request handed to the driver; what it returns is logged as the datagrams of this call in arrival order (ghost recv.*), and is memory that exists (allocated); its implementation ut0311.Broadcast and the collector goroutine are verified against their own contracts (C09)"],
    not_decided=["at this level nothing of an entry is left undecided (`addr`: the completed address is the IPv4 address of the entry's own datagram with the broadcast port); what remains outside is how the datagrams get into the log (the collector goroutine's interleaving with the caller, C08/C09)",
                 "'received before the timeout' is the driver's side (C09)"],
    explanation="GetDevices is verified with broadcast() and the reflective codec executed in place (loop invariants for both loops): the reply collector of ut0311.Broadcast (goroutine body) keeps every collected datagram in a buffer of its own (pairwise distinct blocks: a later datagram cannot change an earlier reply); exactly one discovery request (function 0x94, serial 0, zero elsewhere) is handed to driver.Broadcast, addressed to the configured broadcast address (255.255.255.255:60000 by default); the call fails only if the driver fails - a wrong-length or undecodable datagram never makes it fail (`total`). EXACTNESS: the datagrams the driver returned are logged in arrival order (ghost recv.len / recv.bytes); disc.ok(b, n) says that a datagram decodes as a get-device reply (64 bytes, protocol id, function code 0x94, BCD date), disc.count counts such datagrams by recursion, disc.sel(k) is the position of the k-th of them. `exact`: the result has exactly disc.count entries - one for each well-formed reply, nothing for a malformed datagram, and a malformed datagram hides nothing after it. `entries`, `ip`, `mask`, `gateway`, `mac`: entry k carries the serial number, firmware version, date, IP address, subnet mask, gateway and MAC address decoded from datagram disc.sel(k) - its own reply, in arrival order, duplicates included. Every entry's address carries the broadcast port (60000 by default) and the name of the matching configured controller (`ports`, `names`); no run-time panic, including the type assertion on the decoded replies. Level 'other': per-entry address bytes are not decided at this level."))

ids = {e["id"] for e in new}
out = [p for p in props if p["id"] not in ids] + new
out.sort(key=lambda p: p["id"])
json.dump(out, open(os.path.join(SPEC, "properties.json"), "w"), indent=1)
print("wrote", len(out), "property specs")
