#!/usr/bin/env python3
"""Generates, for every message struct of /repo/messages, two lemma functions (build tag verif)
and their contracts:

  lemmaRoundTrip<T>(v T) (w T, ok bool)   decode(encode(v)) == v for in-domain v        (C05, C18)
  lemmaDecode<T>(b []byte) (m T, err error)  decoding an arbitrary byte string never panics and
                                             only accepts 64 bytes with the right header   (C04, C05)

The lemma functions are ordinary client code of codec.Marshal / codec.Unmarshal; the engine
verifies them with the reflective codec executed on its real body for the concrete type T.
The struct definitions are read from /repo/messages/*.go on every generation; the engine itself
re-reads the tags from go/types on every run, so a changed tag changes the proof, not this file.

Writes /repo/messages/lemmas_verif.go and /repo/messages/contracts_verif.go.
"""
import re, glob, os

SRC = "/repo/messages"
structs = {}
order = []
for path in sorted(glob.glob(os.path.join(SRC, "*.go"))):
    if path.endswith("_test.go") or path.endswith("_verif.go"):
        continue
    text = open(path).read()
    for m in re.finditer(r"^type (\w+) struct \{\n(.*?)^\}", text, re.S | re.M):
        name, body = m.group(1), m.group(2)
        fields = []
        for line in body.split("\n"):
            line = line.split("//")[0].strip()
            if not line:
                continue
            fm = re.match(r"^(\w+)\s+([\w\.\*]+)\s+`uhppote:\"([^\"]*)\"`$", line)
            if fm:
                fields.append((fm.group(1), fm.group(2), fm.group(3)))
            elif re.match(r"^\w+$", line):
                fields.append((line, "<embedded>", ""))
            else:
                raise SystemExit(f"{path}: cannot parse field line {line!r}")
        structs[name] = fields
        order.append(name)

def flat_fields(name, prefix=""):
    out = []
    for fname, ftype, tag in structs[name]:
        if ftype == "<embedded>":
            out += flat_fields(fname, prefix + fname + ".")
        else:
            out.append((prefix + fname, ftype, tag))
    return out

def year(x): return f"time.year({x}.abs, {x}.loc)"
def month(x): return f"time.month({x}.abs, {x}.loc)"
def day(x): return f"time.day({x}.abs, {x}.loc)"
def hour(x): return f"time.hour({x}.abs, {x}.loc)"
def minute(x): return f"time.minute({x}.abs, {x}.loc)"
def second(x): return f"time.second({x}.abs, {x}.loc)"
def iszero(x): return f"({x}.abs == 0 && {x}.ns == 0)"

def clauses(fname, ftype, tag):
    """returns (domain condition or None, [equalities that hold when ok])"""
    v, w = "v." + fname, "w." + fname
    if ftype in ("types.MsgType", "types.SOM"):
        return None, []
    if "offset" not in tag:
        return None, []
    if ftype in ("bool", "uint8", "byte", "uint16", "uint32", "types.SerialNumber", "types.Version"):
        return None, [f"{w} == {v}"]
    if ftype == "types.PIN":
        return f"{v} < 16777216", [f"{w} == {v}"]
    if ftype == "types.HHmm":
        return (f"0 <= {v}.hours && {v}.hours <= 24 && 0 <= {v}.minutes && {v}.minutes <= 59 && !({v}.hours == 24 && {v}.minutes != 0)",
                [f"{w}.hours == {v}.hours", f"{w}.minutes == {v}.minutes"])
    if ftype == "*types.HHmm":
        return (f"({v} != nil ==> 0 <= {v}.hours && {v}.hours <= 24 && 0 <= {v}.minutes && {v}.minutes <= 59 && !({v}.hours == 24 && {v}.minutes != 0))",
                [f"({v} != nil ==> {w} != nil && {w}.hours == {v}.hours && {w}.minutes == {v}.minutes)"])
    off = int(re.search(r"offset:\s*([0-9]+)", tag).group(1))
    if ftype == "types.Date":
        # in domain: the zero 'no date', or a date with year 0..9999; the field is written at its offset in
        # the BCD form and read back from the same offset (the per-type round trip is types.lemmaRoundTripDate)
        dom = f"({iszero(v)} || (0 <= {year(v)} && {year(v)} <= 9999))"
        return dom, [f"wire.date(row(b), {off}, {v}.abs, {v}.ns, {v}.loc)", f"wire.rdate(row(b), {off}, {w}.abs, {w}.ns, {w}.loc)"]
    if ftype == "types.DateTime":
        dom = f"(0 <= {year(v)} && {year(v)} <= 9999)"
        return dom, [f"wire.datetime(row(b), {off}, {v}.abs, {v}.loc)", f"wire.rdatetime(row(b), {off}, {w}.abs, {w}.ns, {w}.loc)"]
    if ftype == "types.SystemDate":
        return f"(1969 <= {year(v)} && {year(v)} <= 2068)", [f"wire.sysdate(row(b), {off}, {v}.abs, {v}.loc)", f"(wire.rsysdateOK(row(b), {off}) ==> wire.rsysdate(row(b), {off}, {w}.abs, {w}.ns, {w}.loc))"]
    if ftype == "types.SystemTime":
        return None, [f"wire.systime(row(b), {off}, {v}.abs, {v}.loc)", f"wire.rsystime(row(b), {off}, {w}.abs, {w}.ns, {w}.loc)"]
    if ftype == "net.IP":
        return f"len({v}) == 4", [f"len({w}) == 16"] + [f"{w}[{12+i}] == {v}[{i}]" for i in range(4)]
    if ftype == "netip.AddrPort":
        return f"{v}.ip.kind == 1", [f"{w}.ip.kind == 1", f"{w}.ip.bits == {v}.ip.bits", f"{w}.port == {v}.port"]
    if ftype == "types.MacAddress":
        return f"len({v}) == 6", [f"len({w}) == 6"] + [f"{w}[{i}] == {v}[{i}]" for i in range(6)]
    raise SystemExit(f"no clause template for field type {ftype}")

def decoded(fname, ftype, tag):
    """what a successfully decoded field is, as a function of the bytes at its offset only (read side)"""
    m = "m." + fname
    if ftype in ("types.MsgType", "types.SOM") or "offset" not in tag:
        return []
    off = int(re.search(r"offset:\s*([0-9]+)", tag).group(1))
    R = "row(b)"
    if ftype == "bool":
        return [f"({m} <==> b[{off}] == 1)"]
    if ftype in ("uint8", "byte"):
        return [f"{m} == b[{off}]"]
    if ftype == "uint16":
        return [f"{m} == wire.u16({R}, {off})"]
    if ftype in ("uint32", "types.SerialNumber"):
        return [f"{m} == wire.u32({R}, {off})"]
    if ftype == "types.Version":
        return [f"{m} == 256 * b[{off}] + b[{off+1}]"]
    if ftype == "types.PIN":
        return [f"{m} == wire.u24({R}, {off})"]
    if ftype == "types.HHmm":
        return [f"wire.rhhmm({R}, {off}, {m}.hours, {m}.minutes)"]
    if ftype == "*types.HHmm":
        return [f"({m} != nil ==> wire.rhhmm({R}, {off}, {m}.hours, {m}.minutes))"]
    if ftype == "types.Date":
        return [f"wire.rdate({R}, {off}, {m}.abs, {m}.ns, {m}.loc)"]
    if ftype == "types.DateTime":
        return [f"wire.rdatetime({R}, {off}, {m}.abs, {m}.ns, {m}.loc)"]
    if ftype == "types.SystemDate":
        return [f"(wire.rsysdateOK({R}, {off}) ==> wire.rsysdate({R}, {off}, {m}.abs, {m}.ns, {m}.loc))"]
    if ftype == "types.SystemTime":
        return [f"wire.rsystime({R}, {off}, {m}.abs, {m}.ns, {m}.loc)"]
    if ftype == "net.IP":
        return [f"len({m}) == 16"] + [f"{m}[{12+i}] == b[{off+i}]" for i in range(4)]
    if ftype == "netip.AddrPort":
        return [f"{m}.ip.kind == 1", f"{m}.ip.bits == wire.be32({R}, {off})", f"{m}.port == wire.u16({R}, {off+4})"]
    if ftype == "types.MacAddress":
        return [f"len({m}) == 6"] + [f"{m}[{i}] == b[{off+i}]" for i in range(6)]
    raise SystemExit(f"no decode template for field type {ftype}")

def header(name):
    """(function code, protocol id) from the MsgType/SOM tags"""
    code, som = None, "0x17"
    for fname, ftype, tag in flat_fields(name):
        m = re.search(r"value:\s*(0[xX][0-9a-fA-F]+|[0-9]+)", tag)
        if ftype == "types.MsgType" and m:
            code = m.group(1)
        if ftype == "types.SOM" and m:
            som = m.group(1)
    return code, som

go = ["//go:build verif", "", "package messages", "",
      "// Lemma functions for the /verif VC generator (govc), GENERATED by /verif/tools/gen_message_lemmas.py.",
      "// Client code of codec.Marshal / codec.Unmarshal: verified with the reflective codec executed on its",
      "// real body for the concrete message type. Compiled only with -tags verif.", "",
      "import (", '\tcodec "github.com/uhppoted/uhppote-core/encoding/UTO311-L0x"', ")", ""]
ct = ["//go:build verif", "",
      "// Contracts for package messages, GENERATED by /verif/tools/gen_message_lemmas.py; comments only.",
      "// For every message type T: decode(encode(v)) == v for in-domain v (lemmaRoundTrip<T>), and decoding",
      "// an arbitrary byte string either fails or was given 64 bytes with T's protocol id and function code",
      "// (lemmaDecode<T>).",
      "//", "// verif:package github.com/uhppoted/uhppote-core/messages", "package messages", ""]

names = []
for name in order:
    fields = flat_fields(name)
    code, som = header(name)
    if code is None:
        continue
    names.append(name)
    go += [f"func lemmaRoundTrip{name}(v {name}) ({name}, []byte, bool) {{",
           f"\tvar w {name}", "",
           "\tb, err := codec.Marshal(v)", "\tif err != nil {", "\t\treturn w, nil, false", "\t}", "",
           "\tif err := codec.Unmarshal(b, &w); err != nil {", "\t\treturn w, b, false", "\t}", "",
           "\treturn w, b, true", "}", "",
           f"func lemmaDecode{name}(b []byte) ({name}, error) {{",
           f"\tvar m {name}", "",
           "\terr := codec.Unmarshal(b, &m)", "",
           "\treturn m, err", "}", ""]
    doms, eqs = [], []
    for f in fields:
        d, e = clauses(*f)
        if d:
            doms.append(d)
        eqs += e
    ct += [f"//@ func lemmaRoundTrip{name}", "//@   params v", "//@   returns (w, b, ok)", "//@   attr opaque = bcd., time.", "//@   attr noaxioms = time."]
    ptrs = [f"v.{f[0]} != nil" for f in fields if f[1].startswith("*")]
    if ptrs:
        # a nil pointer field is not encoded at all (its bytes stay zero); the lemma is stated for present fields
        ct.append("//@   requires present: " + " && ".join(ptrs))
    dom = " && ".join(doms) if doms else "true"
    ct.append(f"//@   ensures total: {dom} ==> ok")
    if eqs:
        ct.append(f"//@   ensures same:  ok && {dom} ==> " + " && ".join(eqs))
    # the status/event function 0x20 is also accepted with the v6.62 protocol id 0x19
    somc = "(b[0] == 0x17 || b[0] == 0x19)" if code.lower() == "0x20" else f"b[0] == {som}"
    ct += [f"//@ func lemmaDecode{name}", "//@   params b", "//@   returns (m, err)",
           "//@   attr opaque = bcd.", "//@   attr noaxioms = time.",
           f"//@   ensures header: err == nil ==> len(b) == 64 && {somc} && b[1] == {code}"]
    # every field of the decoded value is a function of the bytes at its own offset: in particular the value does
    # not depend on bytes that belong to no field (C05)
    dec = []
    for f in fields:
        dec += decoded(*f)
    if dec:
        ct.append("//@   ensures fields: err == nil ==> " + " && ".join(dec))
    slices = [f[0] for f in fields if f[1] in ("net.IP", "types.MacAddress", "net.HardwareAddr")]
    if slices:
        # decoded slices share no memory with the message buffer (C17)
        ct.append("//@   ensures noalias: err == nil ==> " + " && ".join(f"!sameblock(m.{n}, b)" for n in slices))
    ct.append("")

# the two dispatchers: the message type is the one whose function code is in the header (the code of each
# type is taken from its own MsgType tag, not from the dispatch tables); unknown codes, a wrong length and a
# wrong protocol id are rejected
for kind in ("Request", "Response"):
    table = [(header(n)[0], n) for n in order if n.endswith(kind) and header(n)[0] is not None]
    ct += ["// (the decoder call is summarised per message type by the contract of lemmaDecode<T>, which is that call on a zero T)",
           f"//@ func Unmarshal{kind}", "//@   params bytes", "//@   returns (res, err)",
           "//@   attr summarize = encoding/UTO311-L0x.Unmarshal by lemmaDecode",
           "//@   ensures header:  err == nil ==> len(bytes) == 64 && bytes[0] == 0x17 && res != nil",
           "//@   ensures known:   err == nil ==> " + " && ".join(f'(bytes[1] == {c} ==> dyntype(res) == typeid("*messages.{n}"))' for c, n in table),
           "//@   ensures code:    err == nil ==> " + " && ".join(f'(dyntype(res) == typeid("*messages.{n}") ==> bytes[1] == {c})' for c, n in table),
           "//@   ensures unknown: len(bytes) == 64 && " + " && ".join(f"bytes[1] != {c}" for c, n in table) + " ==> err != nil", ""]

open(os.path.join(SRC, "lemmas_verif.go"), "w").write("\n".join(go))
open(os.path.join(SRC, "contracts_verif.go"), "w").write("\n".join(ct))
print("generated lemmas for", len(names), "message types")
open(os.path.join(os.path.dirname(os.path.abspath(__file__)), "..", "spec", "message_types.txt"), "w").write("\n".join(names) + "\n")
