#!/bin/sh
# runs every claimed check (quick tier by default) and prints one line per check
TIER=${1:-quick}
cd "$(dirname "$0")/.."
for id in $(python3 -c "import json;print(' '.join(c['property_id'] for c in json.load(open('MANIFEST.json'))['checks']))"); do
  s=$(date +%s)
  out=$(./check $id $TIER 2>&1); rc=$?
  e=$(date +%s)
  echo "$id rc=$rc $((e-s))s $(echo "$out" | grep -c '^VIOLATION') violations, $(echo "$out" | grep -c '^KNOWN-FINDING') known, $(echo "$out" | grep -c 'ENGINE-PROBLEM') engine problems: $(echo "$out" | grep "^$id" | head -1 | cut -c1-120)"
done
