#!/usr/bin/env python3
"""usage: unsatcore.py file.smt2 — names every top-level assert and prints z3's unsat core."""
import sys, subprocess, re
src = open(sys.argv[1]).read()
lines = src.split("\n")
out = ["(set-option :produce-unsat-cores true)"]
n = 0
names = {}
for l in lines:
    if l.startswith("(assert ") and l.endswith(")"):
        n += 1
        body = l[len("(assert "):-1]
        out.append(f"(assert (! {body} :named a{n}))")
        names[f"a{n}"] = body
    elif l.startswith("(check-sat"):
        out.append("(check-sat)")
        out.append("(get-unsat-core)")
    else:
        out.append(l)
open("/tmp/core.smt2", "w").write("\n".join(out))
r = subprocess.run(["z3", "-T:60", "/tmp/core.smt2"], capture_output=True, text=True).stdout
print(r.split("\n")[0])
for a in re.findall(r"a\d+", r.split("\n", 1)[1] if "\n" in r else ""):
    print(a, names[a][:400])
