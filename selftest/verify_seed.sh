#!/bin/sh
# usage: selftest/verify_seed.sh <agent-out-dir> <property id> <n>
# Confirms a seeded change in a scratch worktree of /repo: demo passes on the clean tree, the
# patch applies, builds, passes the full existing suite, and the demo fails with it. On success
# stores it as /verif/seeded/<id>-<n>/ . The scratch worktree is removed afterwards.
export GOFLAGS=-mod=mod GOPROXY=off GOSUMDB=off GOTOOLCHAIN=local
SRC=$1; ID=$2; N=$3
VERIF=$(cd "$(dirname "$0")/.." && pwd)
WT=$(mktemp -d /tmp/seedchk.XXXXXX); rmdir "$WT"
git -C /repo worktree add --detach "$WT" HEAD -q || exit 3
trap 'git -C /repo worktree remove --force "$WT"; rm -rf "$WT"' EXIT
PKG=$(grep -m1 'place in:' "$SRC/demo_test.go" | sed 's/.*place in: *//; s/[` ]*$//; s/\/$//')
[ -d "$WT/$PKG" ] || { echo "FAIL: bad package dir '$PKG'"; exit 1; }
cp "$SRC/demo_test.go" "$WT/$PKG/zz_seeded_demo_test.go"
(cd "$WT" && go test -vet=off -count=1 -run 'TestSeededDemo$' ./$PKG > "$WT/../seed_clean.log" 2>&1) || { echo "FAIL: demo does not pass on the clean tree"; tail -5 "$WT/../seed_clean.log"; exit 1; }
rm "$WT/$PKG/zz_seeded_demo_test.go"
(cd "$WT" && git apply "$SRC/patch.diff") || { echo "FAIL: patch does not apply"; exit 1; }
(cd "$WT" && go build ./... ) || { echo "FAIL: build"; exit 1; }
ok=0
for try in 1 2 3; do
  if (cd "$WT" && go test -vet=off -count=1 ./... > "$WT/../seed_suite.log" 2>&1); then ok=1; break; fi
  grep -q "address already in use" "$WT/../seed_suite.log" || break
  sleep 5
done
[ $ok = 1 ] || { echo "FAIL: existing suite fails with the patch"; grep -v "^ok\|no test files" "$WT/../seed_suite.log" | head -10; exit 1; }
cp "$SRC/demo_test.go" "$WT/$PKG/zz_seeded_demo_test.go"
if (cd "$WT" && go test -vet=off -count=1 -run 'TestSeededDemo$' ./$PKG > "$WT/../seed_demo.log" 2>&1); then echo "FAIL: demo passes with the patch"; exit 1; fi
D="$VERIF/seeded/$ID-$N"; mkdir -p "$D"
cp "$SRC/patch.diff" "$SRC/demo_test.go" "$D/"; [ -f "$SRC/notes.txt" ] && cp "$SRC/notes.txt" "$D/"
echo "CONFIRMED $ID-$N (demo in $PKG)"
rm -f "$WT/../seed_clean.log" "$WT/../seed_suite.log" "$WT/../seed_demo.log"
