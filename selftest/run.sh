#!/bin/sh
# usage: selftest/run.sh <patch file> <property id>...
# Applies the patch to a scratch copy of /repo (outside /repo and /verif), runs the given
# checks against it, removes the copy. Prints one line per check: <id> exit=<n>.
# The evidence/replay files written by these runs are scratch: they go to a scratch verif dir.
export GOFLAGS=-mod=mod GOPROXY=off GOSUMDB=off GOTOOLCHAIN=local
PATCH=$(realpath "$1"); shift
VERIF=$(cd "$(dirname "$0")/.." && pwd)
SCR=$(mktemp -d /tmp/verif-selftest.XXXXXX)
trap 'rm -rf "$SCR"' EXIT
mkdir -p "$SCR/repo" "$SCR/verif"
# SELFTEST_SNAP=<dir> (made by selftest/snapshot.sh): use a frozen copy of /repo, spec, drivers, known findings and
# the engine binary, so that a long corpus run is not disturbed by work going on in /repo and /verif meanwhile
GOVC="$VERIF/bin/govc"
if [ -n "$SELFTEST_SNAP" ]; then
  cp -r "$SELFTEST_SNAP/repo/." "$SCR/repo/" || exit 3
  (cd "$SCR/repo" && patch -p1 -s < "$PATCH") || { echo "PATCH-FAILED $PATCH"; exit 3; }
  ln -s "$SELFTEST_SNAP/spec" "$SCR/verif/spec"
  mkdir -p "$SCR/verif/replay"; ln -s "$SELFTEST_SNAP/drivers" "$SCR/verif/replay/drivers"
  cp "$SELFTEST_SNAP/known_findings.txt" "$SCR/verif/" 2>/dev/null
  GOVC="$SELFTEST_SNAP/govc"
else
(cd /repo && git ls-files -z | xargs -0 cp --parents -t "$SCR/repo") || exit 3
# uncommitted contract/lemma files too
(cd /repo && git ls-files -z --others --exclude-standard | xargs -0 -r cp --parents -t "$SCR/repo")
(cd "$SCR/repo" && patch -p1 -s < "$PATCH") || { echo "PATCH-FAILED $PATCH"; exit 3; }
ln -s "$VERIF/spec" "$SCR/verif/spec"; ln -s "$VERIF/replay" "$SCR/verif/replaysrc"
mkdir -p "$SCR/verif/replay"; ln -s "$VERIF/replay/drivers" "$SCR/verif/replay/drivers"
[ -f "$VERIF/known_findings.txt" ] && cp "$VERIF/known_findings.txt" "$SCR/verif/"
fi
if [ -n "$SELFTEST_BUILD" ]; then (cd "$SCR/repo" && go build ./... ) || { echo "BUILD-FAILED"; exit 3; }; fi
for id in "$@"; do
  "$GOVC" check -repo "$SCR/repo" -verif "$SCR/verif" "$id" quick > "$SCR/out.$id" 2>&1
  rc=$?
  echo "$id exit=$rc $(grep -c '^VIOLATION' "$SCR/out.$id") violation(s): $(grep '  failed:' "$SCR/out.$id" | head -3 | cut -c1-160 | tr '\n' ';')"
  [ -n "$SELFTEST_VERBOSE" ] && cat "$SCR/out.$id"
done
exit 0
