#!/bin/sh
# usage: selftest/run.sh <patch file> <property id>...
# Applies the patch to a scratch copy of /repo (outside /repo and /verif), runs the given
# checks against it, removes the copy. Prints one line per check: <id> exit=<n>.
# The evidence/replay files written by these runs are scratch: they go to a scratch verif dir.
export GOFLAGS=-mod=mod GOPROXY=off GOSUMDB=off GOTOOLCHAIN=local
PATCH=$(realpath "$1"); shift
VERIF=$(cd "$(dirname "$0")/.." && pwd)
SCR=$(mktemp -d /tmp/verif-selftest.XXXXXX)
trap 'rm -rf "$SCR"' EXIT
mkdir -p "$SCR/repo" "$SCR/verif"
(cd /repo && git ls-files -z | xargs -0 cp --parents -t "$SCR/repo") || exit 3
# uncommitted contract/lemma files too
(cd /repo && git ls-files -z --others --exclude-standard | xargs -0 -r cp --parents -t "$SCR/repo")
(cd "$SCR/repo" && patch -p1 -s < "$PATCH") || { echo "PATCH-FAILED $PATCH"; exit 3; }
ln -s "$VERIF/spec" "$SCR/verif/spec"; ln -s "$VERIF/replay" "$SCR/verif/replaysrc"
mkdir -p "$SCR/verif/replay"; ln -s "$VERIF/replay/drivers" "$SCR/verif/replay/drivers"
[ -f "$VERIF/known_findings.txt" ] && cp "$VERIF/known_findings.txt" "$SCR/verif/"
if [ -n "$SELFTEST_BUILD" ]; then (cd "$SCR/repo" && go build ./... ) || { echo "BUILD-FAILED"; exit 3; }; fi
for id in "$@"; do
  "$VERIF/bin/govc" check -repo "$SCR/repo" -verif "$SCR/verif" "$id" quick > "$SCR/out.$id" 2>&1
  rc=$?
  echo "$id exit=$rc $(grep -c '^VIOLATION' "$SCR/out.$id") violation(s): $(grep '  failed:' "$SCR/out.$id" | head -3 | cut -c1-160 | tr '\n' ';')"
  [ -n "$SELFTEST_VERBOSE" ] && cat "$SCR/out.$id"
done
exit 0
