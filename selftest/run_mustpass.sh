#!/bin/sh
# Runs the must-pass corpus (behaviour-preserving edits) against the checks named per patch; every line should say exit=0.
# P*: own edits; R*: written by an independent sub-agent that saw only the source tree (R-README.txt).
# Known exceptions (DESIGN.md section 7): R07/C13, R08/C03+C06, R10/C10 - the contract's anchor function is removed by the edit.
cd "$(dirname "$0")/.."
run() { p=$1; shift; for id in "$@"; do echo "$p $(SELFTEST_BUILD=1 selftest/run.sh selftest/mustpass/$p.patch $id 2>&1 | tail -1 | cut -c1-220)"; done; }
run P01-rename-bcd C12 C05
run P02-errmsg C07 C01
run P12-rename-function-under-contract C07 C01
run P03-debug-sendto C01 C03 C06
run P04-reorder-putcard C07 C01
run P05-bcd-if C12
run P06-reorder-fields C02 C05
run P07-helper-codec C03 C04 C05
run P08-sendto-local C03
run P09-hhmm-order C02 C14
run P10-sleep-after C09
run P11-new-closure-before-sendto-closure C01 C03 C06 C07
run P13-debugf-in-listen-handler C04 C10
run R01-bcd-digit-arithmetic C12 C02 C05
run R02-codec-marshal-extract-tagged-byte C01 C05 C18 C04
run R03-datetime-unmarshal-zero-table C02 C13 C05 C04
run R04-hhmm-extract-parse-helper C02 C14 C13 C07 C04
run R05-pin-explicit-little-endian C01 C02 C05 C14
run R06-put-card-wiegand26-arithmetic C07 C01
run R07-get-status-extract-sysdatetime C02 C04 C13
run R08-sendto-inline-dispatch-switch C01 C03 C06 C07
run R09-driver-extract-dial-control C09 C06
run R10-listen-extract-event-to-status C10
# S*: second set by an independent sub-agent, told to keep every existing function, closure and local name in place (S-README.txt)
run S01-broadcastto-guard-clauses C09 C06 C03
run S02-broadcast-receive-loop C09 C11
run S03-broadcast-positive-conditions C11
run S04-getdevice-single-lookup C02 C06
run S05-gettimeprofile-segment-helper C02 C04
run S06-putcard-validation-switch C07 C01
run S07-date-unmarshal-wire-switch C02 C13 C05
run S08-weekdays-shared-day-list C14 C04
run S09-dispatchers-switch-commaok C05 C04
run S10-codec-unmarshal-conditionals C03 C05 C18 C04 C02
# T*: third set by an independent sub-agent: renamed locals / parameters / a function, a new closure at the top of
# sendto, reordered initialisers, intermediate variables, if -> switch, reordered map literals, an extracted helper (T-README.txt)
run T01-put-card-rename-locals C07 C01 C17
run T02-rename-isCardNumberValid C07
run T03-hhmm-rename-locals C02 C01 C05
run T04-get-devices-rename-locals C11 C06
run T05-sendto-debug-defer C01 C03 C06 C07
run T06-reorder-field-initialisers C02 C01 C13
run T07-send-intermediate-variables C09 C06
run T08-date-if-to-switch C02 C14 C13 C01
run T09-bcd-rename-and-fold-assignment C12 C05
run T10-listen-rename-loop-locals C10
run T11-messages-reorder-dispatch-maps C05 C04
run T12-set-door-passcodes-extract-helper C07 C01 C04
