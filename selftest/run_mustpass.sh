#!/bin/sh
# Runs the must-pass corpus (semantics-preserving edits) against the checks named per patch; every line must say exit=0.
cd "$(dirname "$0")/.."
run() { p=$1; shift; for id in "$@"; do echo "$p $(SELFTEST_BUILD=1 selftest/run.sh selftest/mustpass/$p.patch $id 2>&1 | tail -1 | cut -c1-220)"; done; }
run P02-errmsg C07 C01
run P03-debug-sendto C01 C03 C06
run P04-reorder-putcard C07 C01
run P05-bcd-if C12
run P06-reorder-fields C02 C05
run P07-helper-codec C03 C04 C05
run P08-sendto-local C03
run P09-hhmm-order C02 C14
