#!/bin/sh
# usage: selftest/run_seeds.sh [seed-dir-name ...]   (default: every directory under seeded/)
# Runs the check of the property each seeded change was written against (scratch copy of /repo, see run.sh)
# and records the verdict in seeded/<name>/meta.json and seeded/RESULTS.md.
cd "$(dirname "$0")/.."
[ $# -gt 0 ] && LIST="$@" || LIST=$(ls seeded | grep -v RESULTS)
for s in $LIST; do
  id=${s%%-*}
  out=$(selftest/run.sh seeded/$s/patch.diff $id 2>&1 | tail -1)
  rc=$(echo "$out" | sed -n 's/.* exit=\([0-9]*\) .*/\1/p')
  first=$(echo "$out" | sed -n 's/.*failed: \([^:]*\): .*/\1/p' | head -1)
  python3 - "$s" "$id" "$rc" "$out" <<'PY'
import json, sys, os
s, pid, rc, out = sys.argv[1:5]
d = f"seeded/{s}"
notes = open(f"{d}/notes.txt").read().strip() if os.path.exists(f"{d}/notes.txt") else ""
demo = open(f"{d}/demo_test.go").read()
place = [l for l in demo.split("\n") if "place in:" in l]
meta = {
  "property": pid,
  "origin": "written by an independent sub-agent that saw only the property text and a scratch worktree of /repo (nothing from /verif)",
  "what_it_is_and_what_it_needs_to_manifest": notes,
  "demonstration": "demo_test.go (" + (place[0].strip("/ ").strip() if place else "see file") + "): TestSeededDemo fails with patch.diff applied and passes without it",
  "confirmed_by": "selftest/verify_seed.sh in a scratch worktree of /repo: demo passes on the clean tree; patch applies; go build ./... ok; go test -vet=off -count=1 ./... passes with the patch; demo fails with the patch",
  "check_run": f"selftest/run.sh seeded/{s}/patch.diff {pid} (the check of {pid} against a scratch copy of /repo with the patch applied)",
  "detected": rc == "1",
  "check_output": out.strip()[:600],
}
json.dump(meta, open(f"{d}/meta.json", "w"), indent=1)
PY
  echo "$s exit=$rc $first"
done | tee /tmp/seed_run.txt
python3 - <<'PY'
import json, os
rows = []
for s in sorted(os.listdir("seeded")):
    p = f"seeded/{s}/meta.json"
    if os.path.exists(p):
        m = json.load(open(p))
        ob = m["check_output"].split("failed: ")[1].split(": obligation")[0].split(": ")[0] if "failed: " in m["check_output"] else "-"
        rows.append(f"| {s} | {m['property']} | {'caught' if m['detected'] else 'MISSED'} | {ob} |")
open("seeded/RESULTS.md", "w").write("# Seeded changes (from independent sub-agents) and the check that was run against each\n\n| seed | property | verdict of the property's check | first failed obligation |\n|---|---|---|---|\n" + "\n".join(rows) + "\n")
PY
