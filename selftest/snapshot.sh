#!/bin/sh
# usage: selftest/snapshot.sh <dir>   - freezes /repo (tracked and untracked-unignored files), /verif/spec, the replay
# drivers, known_findings.txt and bin/govc into <dir> for SELFTEST_SNAP (see run.sh). Remove <dir> afterwards.
D=$1; VERIF=$(cd "$(dirname "$0")/.." && pwd)
rm -rf "$D"; mkdir -p "$D/repo"
(cd /repo && git ls-files -z | xargs -0 cp --parents -t "$D/repo" && git ls-files -z --others --exclude-standard | xargs -0 -r cp --parents -t "$D/repo")
cp -r "$VERIF/spec" "$D/spec"; cp -r "$VERIF/replay/drivers" "$D/drivers"; cp "$VERIF/known_findings.txt" "$D/"; cp "$VERIF/bin/govc" "$D/govc"
echo "snapshot in $D"
